#!/bin/bash
# Usage: confirm_mutant.sh <worktree> <mutant-dir> [--suite]
# Confirms a seeded change independently: demo passes on the clean worktree, fails with the
# patch, (optionally) the pinned suite still shows 412 passed.  Leaves the worktree clean.
WT="$1"; MD="$2"; SUITE="$3"
BD=/tmp/build-confirm-$(basename "$WT")
run_demo() {
  if [ -f "$MD/demo.py" ]; then
    (cd "$WT" && FORCE_BINJA_MOCK=1 timeout 600 /venv/bin/python "$MD/demo.py" >/tmp/demo.out 2>&1); return $?
  elif [ -f "$MD/demo.rs" ]; then
    [ -x /root/rsvendor/mk.sh ] || /verif/bin/setup_rsvendor.sh >/dev/null; [ -f "$BD/Cargo.toml" ] || /root/rsvendor/mk.sh "$WT" "$BD" >/dev/null
    cp "$MD/demo.rs" "$BD/demo.rs"
    (cd "$BD" && RUSTFLAGS=-Awarnings timeout 1500 cargo run --offline --bin demo >/tmp/demo.out 2>&1); return $?
  else
    for t in "$MD"/test_*.py; do (cd "$WT" && FORCE_BINJA_MOCK=1 timeout 600 /venv/bin/python -m pytest -q -p no:cacheprovider "$t" >/tmp/demo.out 2>&1); return $?; done
  fi
}
git -C "$WT" checkout -q -- . ; git -C "$WT" clean -qfd
run_demo; CLEAN=$?
git -C "$WT" apply "$MD/patch.diff" || { echo "APPLY-FAILED"; exit 3; }
run_demo; MUT=$?
SUITE_RES="skipped"
if [ "$SUITE" = "--suite" ]; then
  SUITE_RES=$(cd "$WT" && timeout 900 /venv/bin/python -m pytest -q -p no:cacheprovider --timeout=900 --continue-on-collection-errors 2>&1 | tail -1)
fi
git -C "$WT" checkout -q -- . ; git -C "$WT" clean -qfd
echo "$(basename $MD): clean_exit=$CLEAN mutant_exit=$MUT suite=[$SUITE_RES]"
