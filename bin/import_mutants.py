#!/usr/bin/env python3
"""Import seeded changes written by a sub-agent (/tmp/mutants-<id>/<name>/) into /verif/seeded/<ID>-<name>/."""
import json, os, shutil, subprocess, sys
import re
tag = sys.argv[1].lower()                       # e.g. c12 or c12w3 (a later round for the same property)
base = f"/tmp/mutants-{tag}"
m = re.match(r"(c\d\d)(?:w(\d+))?$", tag)
prop, rnd = m.group(1), int(m.group(2) or 1)
for name in sorted(os.listdir(base)):
    src = f"{base}/{name}"
    if not os.path.isfile(f"{src}/patch.diff"):
        continue
    dst = f"/verif/seeded/{prop.upper()}-{name}"
    os.makedirs(dst, exist_ok=True)
    for f in os.listdir(src):
        if os.path.isfile(f"{src}/{f}"):
            shutil.copy(f"{src}/{f}", f"{dst}/{f}")
    chk = subprocess.run(["git", "-C", "/repo", "apply", "--check", f"{dst}/patch.diff"], capture_output=True, text=True)
    meta = {"property": prop.upper(), "name": name,
            "source": "independent sub-agent given only the property text and a scratch worktree",
            "needs_to_manifest": "see notes.md",
            "confirmed": {"by": "/verif/bin/confirm_mutant.sh <worktree> <dir> --suite", "result": None},
            "round": rnd, "applies_to_repo_head": chk.returncode == 0}
    json.dump(meta, open(f"{dst}/meta.json", "w"), indent=1)
    print(dst, "applies" if chk.returncode == 0 else "NO-APPLY " + chk.stderr[:120])
