#!/usr/bin/env python3
"""confirm_round.py <worktree> <PROP> <round>: run confirm_mutant.sh --suite for every seeded change of that property and
round, record the outcome in its meta.json (the worktree is moved to /repo's HEAD first)."""
import json, os, re, subprocess, sys
wt, prop, rnd = sys.argv[1], sys.argv[2].upper(), int(sys.argv[3])
head = subprocess.run(["git", "-C", "/repo", "rev-parse", "HEAD"], capture_output=True, text=True).stdout.strip()
subprocess.run(["git", "-C", wt, "checkout", "-q", "--detach", head], check=True)
for d in sorted(os.listdir("/verif/seeded")):
    md = f"/verif/seeded/{d}"
    mp = f"{md}/meta.json"
    if not d.startswith(prop + "-") or not os.path.isfile(mp):
        continue
    meta = json.load(open(mp))
    if int(meta.get("round", 1)) != rnd:
        continue
    out = subprocess.run(["/verif/bin/confirm_mutant.sh", wt, md, "--suite"], capture_output=True, text=True).stdout.strip().splitlines()[-1]
    m = re.search(r"clean_exit=(\d+) mutant_exit=(\d+) suite=\[(.*)\]", out)
    ok = bool(m) and m.group(1) == "0" and m.group(2) != "0" and "412 passed" in m.group(3) and "17 failed" in m.group(3)
    meta["confirmed"] = {"demo_passes_on_clean_tree": bool(m) and m.group(1) == "0",
                         "demo_fails_with_patch": bool(m) and m.group(2) != "0",
                         "pinned_suite_with_patch": m.group(3) if m else out,
                         "suite_matches_baseline_412_passed_17_failed": bool(m) and "412 passed" in m.group(3) and "17 failed" in m.group(3),
                         "repo_head": head[:7],
                         "confirmed_by": "/verif/bin/confirm_mutant.sh <worktree> <dir> --suite"}
    json.dump(meta, open(mp, "w"), indent=1)
    print(("CONFIRMED " if ok else "NOT-CONFIRMED ") + out)
subprocess.run(["rm", "-rf", f"/tmp/build-confirm-{os.path.basename(wt)}"])
