#!/bin/bash
# Recreates /root/rsvendor (outside /verif, so that sub-agents writing seeded changes can build Rust demos offline without
# reading /verif): vendored crates, the zip shim and mk.sh.  confirm_mutant.sh needs it for demo.rs files.
set -e
mkdir -p /root/rsvendor
rm -rf /root/rsvendor/crates /root/rsvendor/zipshim
cp -r /verif/vendor/crates /root/rsvendor/crates
cp -r /verif/rust/zipshim /root/rsvendor/zipshim
cp /verif/bin/rsvendor_mk.sh /root/rsvendor/mk.sh
chmod +x /root/rsvendor/mk.sh
echo "/root/rsvendor ready"
