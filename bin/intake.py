#!/usr/bin/env python3
"""Intake of a seeded change written by a sub-agent: copy <src> to /verif/seeded/<prop>-<name>, confirm it
independently in a scratch worktree (demo passes clean / fails patched, pinned suite unchanged) and write meta.json.

Usage: intake.py <round> <src-dir> <prop> <name> [checks,comma,separated]
"""
import json
import os
import re
import shutil
import subprocess
import sys

VERIF = os.path.dirname(os.path.dirname(os.path.abspath(__file__)))


def main():
    rnd, src, prop, name = sys.argv[1:5]
    checks = sys.argv[5].split(",") if len(sys.argv) > 5 else None
    dst = os.path.join(VERIF, "seeded", f"{prop}-{name}")
    if not os.path.isdir(dst):
        shutil.copytree(src, dst)
    wt = f"/tmp/cwt-{os.getpid()}"
    subprocess.run(["git", "-C", "/repo", "worktree", "add", "--detach", wt, "HEAD"], capture_output=True)
    try:
        out = subprocess.run([os.path.join(VERIF, "bin", "confirm_mutant.sh"), wt, dst, "--suite"],
                             capture_output=True, text=True).stdout.strip().splitlines()[-1]
    finally:
        subprocess.run(["rm", "-rf", f"/tmp/build-confirm-{os.path.basename(wt)}"])
        subprocess.run(["git", "-C", "/repo", "worktree", "remove", "--force", wt], capture_output=True)
    m = re.search(r"clean_exit=(\d+) mutant_exit=(\d+) suite=\[(.*)\]", out)
    head = subprocess.run(["git", "-C", "/repo", "rev-parse", "--short", "HEAD"], capture_output=True, text=True).stdout.strip()
    ok = bool(m) and m.group(1) == "0" and m.group(2) != "0" and "412 passed" in m.group(3) and "17 failed" in m.group(3)
    meta = {
        "property": prop, "name": name,
        "source": "independent sub-agent given only the property text and a scratch worktree",
        "needs_to_manifest": "see notes.md",
        "confirmed": {
            "demo_passes_on_clean_tree": bool(m) and m.group(1) == "0",
            "demo_fails_with_patch": bool(m) and m.group(2) != "0",
            "pinned_suite_with_patch": m.group(3) if m else out,
            "suite_matches_baseline_412_passed_17_failed": bool(m) and "412 passed" in m.group(3) and "17 failed" in m.group(3),
            "repo_head": head,
            "confirmed_by": "/verif/bin/confirm_mutant.sh <worktree> <dir> --suite",
        },
        "round": int(rnd), "applies_to_repo_head": True,
    }
    if checks:
        meta["checks"] = checks
    with open(os.path.join(dst, "meta.json"), "w") as f:
        json.dump(meta, f, indent=1)
    print(f"{prop}-{name}: {'CONFIRMED' if ok else 'NOT CONFIRMED'} {out}")
    return 0 if ok else 1


if __name__ == "__main__":
    sys.exit(main())
