#!/bin/bash
# Usage: mk.sh <worktree-of-repo> <build-dir>
# Creates <build-dir>/Cargo.toml: a binary crate `demo` (source <build-dir>/demo.rs) linked against the
# SC62015 core of <worktree> (sc62015/core/src, features: snapshot on, perfetto off), buildable offline:
#   cd <build-dir> && cargo run --offline --bin demo
# Also supports integration-test style files: put them at <build-dir>/demo.rs with a fn main().
set -e
WT=$(realpath "$1"); BD="$2"
mkdir -p "$BD/coreshadow"
V=/root/rsvendor/crates
cat > "$BD/coreshadow/Cargo.toml" <<EOT
[package]
name = "sc62015-core"
version = "0.1.0"
edition = "2021"

[lib]
path = "$WT/sc62015/core/src/lib.rs"

[dependencies]
serde = { version = "1.0", features = ["derive"] }
serde_json = "1.0"
thiserror = "1.0"
zip = { version = "0.6", default-features = false, features = ["deflate"], optional = true }

[features]
default = ["snapshot"]
llama-tests = []
cli = []
perfetto = []
snapshot = ["dep:zip"]
EOT
{
cat <<EOT
[package]
name = "demo"
version = "0.1.0"
edition = "2021"

[[bin]]
name = "demo"
path = "demo.rs"

[dependencies]
sc62015-core = { path = "coreshadow" }
serde_json = "1.0"
serde = { version = "1.0", features = ["derive"] }

[profile.dev]
opt-level = 1

[patch.crates-io]
EOT
for c in serde-1.0.228 serde_core-1.0.228 serde_derive-1.0.228 serde_json-1.0.149 thiserror-1.0.69 thiserror-impl-1.0.69 proc-macro2-1.0.106 quote-1.0.45 syn-2.0.117 unicode-ident-1.0.24 itoa-1.0.17 memchr-2.7.6 zmij-1.0.18 miniz_oxide-0.8.9 adler2-2.0.1 crc32fast-1.5.0 cfg-if-1.0.4; do
  echo "${c%-*} = { path = \"$V/$c\" }"
done
echo "zip = { path = \"/root/rsvendor/zipshim\" }"
} > "$BD/Cargo.toml"
[ -f "$BD/demo.rs" ] || echo 'fn main() { println!("replace demo.rs"); }' > "$BD/demo.rs"
echo "$BD ready: cd $BD && RUSTFLAGS=-Awarnings CARGO_TARGET_DIR=$BD/target cargo run --offline --bin demo"
