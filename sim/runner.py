"""Batch runner: seeded runs over 16 processes, known-finding triage, minimisation,
replay files, evidence.  Property modules plug in through a small interface:

    ID, TITLE
    batches(tier) -> [Batch(name, executor, runs, chunk)]
    generate(batch_name, rng, idx, tier) -> scenario (JSON-serialisable dict)
    execute(scenario) -> history (JSON-serialisable)
    check(scenario, history) -> [violation dict {cls, executor, where{}, msg, at}]
    stats(scenario, history) -> {"nontrivial": bool, "sig": str, "faults": {...}, "probes": {...},
                                   "cycles": int, "boundaries": int}
    shrink(scenario) -> iterable of strictly smaller candidate scenarios   (optional)
    COMPONENTS = {"real": [...], "stub": [...]}
    RULE = "..."  (what makes a run non-trivial / distinct)
"""
from __future__ import annotations

import concurrent.futures as cf
import faulthandler
import hashlib
import json
import multiprocessing
import os
import subprocess
import sys
import time
import traceback
from collections import Counter
from dataclasses import dataclass
from pathlib import Path
from typing import Any, Dict, List, Optional

from . import build
from .rng import Rng, mix
from .rshost import HarnessError

VERIF = Path(__file__).resolve().parent.parent
EVIDENCE_DIR = Path(os.environ.get("VERIF_EVIDENCE_DIR") or (VERIF / "evidence"))
REPLAY_DIR = Path(os.environ.get("VERIF_REPLAY_DIR") or (VERIF / "replays"))
FINDINGS_FILE = VERIF / "known_findings.json"


@dataclass
class Batch:
    name: str
    executor: str
    runs: int
    chunk: int = 50
    faulty: bool = True  # False = fault-free share (no relaxation in its oracle)


def canon(obj: Any) -> str:
    return json.dumps(obj, sort_keys=True, separators=(",", ":"))


def digest(obj: Any) -> str:
    return hashlib.blake2b(canon(obj).encode(), digest_size=8).hexdigest()


def load_findings() -> List[dict]:
    if not FINDINGS_FILE.exists() or os.environ.get("VERIF_IGNORE_FINDINGS") == "1":
        return []
    data = json.loads(FINDINGS_FILE.read_text())
    return data.get("findings", [])


def match_finding(prop_id: str, viol: dict, findings: List[dict]) -> Optional[dict]:
    """A finding suppresses only the specific (executor, class, where-subset) it names."""
    for f in findings:
        if f.get("status") != "known":
            continue
        if f.get("property") != prop_id:
            continue
        if f.get("executor") != viol.get("executor"):
            continue
        fcls = f.get("cls")
        if (viol.get("cls") not in fcls) if isinstance(fcls, list) else (fcls != viol.get("cls")):
            continue
        where = f.get("where", {})
        vw = viol.get("where", {})
        ok = True
        for k, allowed in where.items():
            v = vw.get(k)
            if isinstance(allowed, list):
                if v not in allowed:
                    ok = False
                    break
            elif v != allowed:
                ok = False
                break
        if ok:
            return f
    return None


def viol_key(v: dict) -> str:
    return canon([v.get("executor"), v.get("cls"), v.get("where", {})])


# ----------------------------------------------------------------------------------------
# worker side


def _run_one(prop, batch_name: str, seed: int, idx: int, tier: str):
    rng = Rng(mix(seed, prop.ID, batch_name, idx))
    scenario = prop.generate(batch_name, rng, idx, tier)
    history = prop.execute(scenario)
    viols = prop.check(scenario, history)
    st = prop.stats(scenario, history)
    return scenario, history, viols, st


def _worker_chunk(prop_mod_name: str, batch_name: str, seed: int, tier: str, i0: int, i1: int,
                  want_digests: bool):
    faulthandler.dump_traceback_later(600, exit=True)
    import importlib
    prop = importlib.import_module(prop_mod_name)
    agg = {
        "runs": 0, "nontrivial_sigs": set(), "faults": Counter(), "probes": Counter(),
        "cycles": 0, "boundaries": 0, "viols": [], "digests": {}, "samples": [],
        "harness_errors": [], "extra": Counter(),
    }
    for idx in range(i0, i1):
        try:
            scenario, history, viols, st = _run_one(prop, batch_name, seed, idx, tier)
        except HarnessError as e:
            agg["harness_errors"].append(f"{batch_name}#{idx}: {e}")
            continue
        except Exception:
            agg["harness_errors"].append(f"{batch_name}#{idx}: " + traceback.format_exc()[-1500:])
            continue
        agg["runs"] += 1
        if st.get("nontrivial"):
            agg["nontrivial_sigs"].add(st.get("sig") or digest(scenario))
        agg["faults"].update(st.get("faults", {}))
        agg["probes"].update(st.get("probes", {}))
        agg["extra"].update(st.get("extra", {}))
        agg["cycles"] += int(st.get("cycles", 0))
        agg["boundaries"] += int(st.get("boundaries", 0))
        if want_digests and idx < 16:
            agg["digests"][idx] = digest(history)
        if idx < 2 and hasattr(prop, "sample"):
            agg["samples"].append(prop.sample(scenario, history))
        for v in viols:
            v = dict(v)
            v["batch"] = batch_name
            v["idx"] = idx
            agg["viols"].append((v, scenario))
    faulthandler.cancel_dump_traceback_later()
    agg["nontrivial_sigs"] = sorted(agg["nontrivial_sigs"])
    agg["faults"] = dict(agg["faults"])
    agg["probes"] = dict(agg["probes"])
    agg["extra"] = dict(agg["extra"])
    return agg


# ----------------------------------------------------------------------------------------
# minimisation (generic ddmin over candidate generator supplied by the property)


def _still_fails(prop, scenario, key_cls, executor) -> Optional[dict]:
    try:
        history = prop.execute(scenario)
        for v in prop.check(scenario, history):
            if v.get("cls") == key_cls and v.get("executor") == executor:
                return v
    except HarnessError:
        raise
    except Exception:
        return None
    return None


def minimise(prop, scenario, viol, budget_s: float = 20.0):
    if not hasattr(prop, "shrink"):
        return scenario, viol
    t0 = time.time()
    cur, curv = scenario, viol
    improved = True
    rounds = 0
    while improved and time.time() - t0 < budget_s and rounds < 200:
        improved = False
        rounds += 1
        for cand in prop.shrink(cur):
            if time.time() - t0 > budget_s:
                break
            v = _still_fails(prop, cand, viol["cls"], viol["executor"])
            if v is not None:
                cur, curv = cand, v
                improved = True
                break
    return cur, curv


# ----------------------------------------------------------------------------------------
# parent side


def write_replay(prop_id: str, seed: int, viol: dict, scenario: dict, tag: str = "") -> Path:
    REPLAY_DIR.mkdir(exist_ok=True)
    name = f"{prop_id}-{viol['executor']}-{viol['cls']}-{tag or digest(scenario)}.json"
    name = name.replace("/", "_").replace("[", "_").replace("]", "_")
    path = REPLAY_DIR / name
    path.write_text(json.dumps({
        "property": prop_id, "seed": seed, "executor": viol["executor"], "cls": viol["cls"],
        "violation": viol, "scenario": scenario,
    }, indent=1, sort_keys=True))
    return path


def replay_file(path: str) -> int:
    """Re-execute a materialised scenario; exit 1 and print the VIOLATION line if the same
    class reproduces, 0 if it does not."""
    import importlib
    data = json.loads(Path(path).read_text())
    prop = importlib.import_module("sim.props." + data["property"].lower())
    build.ensure_simhost()
    scenario = data["scenario"]
    history = prop.execute(scenario)
    viols = prop.check(scenario, history)
    hit = [v for v in viols if v.get("cls") == data["cls"] and v.get("executor") == data["executor"]]
    for v in viols:
        print(f"replay: {v.get('executor')} {v.get('cls')} {canon(v.get('where', {}))} :: {v.get('msg')}")
    if hit:
        print(f"VIOLATION property={data['property']} replay={path}")
        return 1
    print("replay: violation class did not reproduce")
    return 0


def _confirm_in_fresh_process(path: Path) -> bool:
    env = dict(os.environ)
    env["PYTHONHASHSEED"] = "7"
    proc = subprocess.run(
        [sys.executable, str(VERIF / "bin" / "verif"), "replay", str(path)],
        env=env, capture_output=True, text=True, timeout=300,
    )
    return proc.returncode == 1 and "VIOLATION" in proc.stdout


def _fresh_digests(prop_id: str, batch: str, seed: int, tier: str, n: int, hashseed: str) -> Dict[int, str]:
    env = dict(os.environ)
    env["PYTHONHASHSEED"] = hashseed
    proc = subprocess.run(
        [sys.executable, str(VERIF / "bin" / "verif"), "digest", prop_id, "--batch", batch,
         "--seed", str(seed), "--tier", tier, "--n", str(n)],
        env=env, capture_output=True, text=True, timeout=600,
    )
    if proc.returncode != 0:
        raise HarnessError("digest subprocess failed: " + proc.stderr[-2000:])
    return {int(k): v for k, v in json.loads(proc.stdout.strip().splitlines()[-1]).items()}


def digests_main(prop, batch_name: str, seed: int, tier: str, n: int) -> int:
    build.ensure_simhost()
    out = {}
    for idx in range(n):
        _, history, _, _ = _run_one(prop, batch_name, seed, idx, tier)
        out[idx] = digest(history)
    print(json.dumps(out))
    return 0


def run_check(prop, tier: str, seed: int, jobs: int) -> int:
    t0 = time.time()
    prop_id = prop.ID
    if not os.environ.get("VERIF_SCRATCH_PARENT"):
        import atexit
        import shutil
        import tempfile
        parent = tempfile.mkdtemp(prefix="verif-run-")
        os.environ["VERIF_SCRATCH_PARENT"] = parent
        mypid = os.getpid()
        atexit.register(lambda: os.getpid() == mypid and shutil.rmtree(parent, ignore_errors=True))
    findings = load_findings()
    build.ensure_simhost()
    batches: List[Batch] = prop.batches(tier)
    wall_cap = float(os.environ.get("VERIF_WALL_CAP", "0") or 0) or (170.0 if tier == "quick" else 3300.0)

    total = {
        "runs": 0, "sigs": set(), "faults": Counter(), "probes": Counter(), "extra": Counter(),
        "cycles": 0, "boundaries": 0, "per_batch": {}, "harness_errors": [], "samples": [],
    }
    by_key: Dict[str, dict] = {}
    worker_digests: Dict[str, Dict[int, str]] = {}
    ctx = multiprocessing.get_context("fork")
    capped = False
    with cf.ProcessPoolExecutor(max_workers=jobs, mp_context=ctx) as pool:
        futs = {}
        # chunks are submitted round-robin over the batches (the pool runs them in submission order), so that a
        # wall-clock cap trims every batch proportionally instead of dropping the later ones
        plans = []
        for bt in batches:
            chunks = []
            i = 0
            first = True
            while i < bt.runs:
                j = min(bt.runs, i + (min(bt.chunk, 16) if first else bt.chunk))
                chunks.append((i, j, first))
                first = False
                i = j
            plans.append((bt, chunks))
            total["per_batch"][bt.name] = {"executor": bt.executor, "runs": 0, "planned": bt.runs,
                                           "faulty": bt.faulty}
        depth = max((len(c) for _, c in plans), default=0)
        for lvl in range(depth):
            for bt, chunks in plans:
                # spread shorter batches evenly over the whole submission sequence
                lo = (lvl * len(chunks)) // depth
                hi = ((lvl + 1) * len(chunks)) // depth
                for (i, j, first) in chunks[lo:hi]:
                    f = pool.submit(_worker_chunk, prop.__name__, bt.name, seed, tier, i, j, first)
                    futs[f] = (bt, i, j)
        pending = set(futs)
        while pending:
            remaining = wall_cap - (time.time() - t0)
            if remaining <= 0:
                capped = True
                for f in pending:
                    f.cancel()
                break
            done, pending = cf.wait(pending, timeout=min(remaining, 5.0), return_when=cf.FIRST_COMPLETED)
            for f in done:
                bt, i, j = futs[f]
                try:
                    agg = f.result()
                except Exception as e:  # worker died
                    total["harness_errors"].append(f"{bt.name}[{i}:{j}] worker failed: {e!r}")
                    continue
                total["runs"] += agg["runs"]
                total["per_batch"][bt.name]["runs"] += agg["runs"]
                total["sigs"].update(agg["nontrivial_sigs"])
                total["faults"].update(agg["faults"])
                total["probes"].update(agg["probes"])
                total["extra"].update(agg["extra"])
                total["cycles"] += agg["cycles"]
                total["boundaries"] += agg["boundaries"]
                total["harness_errors"].extend(agg["harness_errors"])
                if agg["samples"] and len(total["samples"]) < 3:
                    total["samples"].extend(agg["samples"][: 3 - len(total["samples"])])
                if agg["digests"]:
                    worker_digests.setdefault(bt.name, {}).update(agg["digests"])
                for v, scenario in agg["viols"]:
                    k = viol_key(v)
                    ent = by_key.get(k)
                    size = len(canon(scenario))
                    if ent is None:
                        by_key[k] = {"v": v, "scenario": scenario, "count": 1, "size": size}
                    else:
                        ent["count"] += 1
                        if size < ent["size"]:
                            ent.update({"v": v, "scenario": scenario, "size": size})

    # determinism self-test: the first runs of every batch re-executed in a fresh interpreter
    # under another PYTHONHASHSEED (and therefore another simhost process / RandomState).
    det = {"rechecked": 0, "mismatches": 0}
    if os.environ.get("VERIF_SKIP_DETERMINISM") != "1":
        for bt in batches:
            wd = worker_digests.get(bt.name, {})
            if not wd:
                continue
            n = min(len(wd), 8 if tier == "quick" else 16)
            try:
                fresh = _fresh_digests(prop_id, bt.name, seed, tier, n, "12345")
            except Exception as e:
                total["harness_errors"].append(f"determinism recheck failed for {bt.name}: {e}")
                continue
            for idx in range(n):
                if idx in wd:
                    det["rechecked"] += 1
                    if fresh.get(idx) != wd[idx]:
                        det["mismatches"] += 1
                        total["harness_errors"].append(
                            f"nondeterministic history: batch {bt.name} run {idx}")

    dump = os.environ.get("VERIF_DUMP_KEYS")
    if dump:
        Path(dump).write_text(json.dumps(
            [{"v": e["v"], "count": e["count"], "scenario": e["scenario"]} for _, e in sorted(by_key.items())]))
    # triage
    known_seen: Dict[str, int] = {}
    new_viols: List[dict] = []
    for k, ent in sorted(by_key.items()):
        f = match_finding(prop_id, ent["v"], findings)
        if f is not None:
            known_seen[f["id"]] = known_seen.get(f["id"], 0) + ent["count"]
        else:
            new_viols.append(ent)
    for f in findings:
        if f.get("status") == "known" and f.get("property") == prop_id and f["id"] in known_seen:
            print(f"KNOWN-FINDING: property={prop_id} {f['id']}: {f['summary']} (seen {known_seen[f['id']]}x)")

    exit_code = 0
    reported = []
    max_report = int(os.environ.get("VERIF_MAX_REPORT", "12"))
    for ent in new_viols[:max_report]:
        v, scenario = ent["v"], ent["scenario"]
        try:
            small, sv = minimise(prop, scenario, v, budget_s=15.0 if tier == "quick" else 40.0)
        except HarnessError as e:
            total["harness_errors"].append(f"minimise: {e}")
            small, sv = scenario, v
        path = write_replay(prop_id, seed, sv, small)
        ok = False
        try:
            ok = _confirm_in_fresh_process(path)
        except Exception as e:
            total["harness_errors"].append(f"replay confirm failed: {e!r}")
        if not ok and small is not scenario:
            path = write_replay(prop_id, seed, v, scenario, tag="orig-" + digest(scenario))
            try:
                ok = _confirm_in_fresh_process(path)
            except Exception as e:
                total["harness_errors"].append(f"replay confirm failed: {e!r}")
        if ok:
            print(f"violation: {sv['executor']} {sv['cls']} {canon(sv.get('where', {}))} x{ent['count']} :: {sv.get('msg')}")
            print(f"VIOLATION property={prop_id} replay={path}")
            reported.append({"cls": sv["cls"], "executor": sv["executor"], "where": sv.get("where", {}),
                             "count": ent["count"], "replay": str(path), "msg": sv.get("msg")})
            exit_code = 1
        else:
            total["harness_errors"].append(
                f"violation {v['cls']} on {v['executor']} did not reproduce in a fresh process "
                f"(harness nondeterminism) — not reported as VIOLATION; replay {path}")
    if len(new_viols) > max_report:
        print(f"note: {len(new_viols) - max_report} further distinct violation keys not minimised")
        exit_code = 1

    wall = time.time() - t0
    probes = dict(total["probes"])
    for name in getattr(prop, "PROBES", []):
        probes.setdefault(name, 0)
    for name, cnt in sorted(probes.items()):
        if cnt == 0:
            print(f"PROBE-ZERO {prop_id} {name}")
    evidence = {
        "property_id": prop_id,
        "tier": tier,
        "seed": seed,
        "level": "exploration",
        "wall_s": round(wall, 2),
        "violations": len(reported),
        "coverage": {
            "evaluations": total["runs"],
            "distinct_nontrivial": len(total["sigs"]),
            "rule": prop.RULE,
            "samples": total["samples"][:3],
            "exhaustive": False,
            "runs_per_hour": int(total["runs"] / max(wall, 1e-6) * 3600),
            "batches": total["per_batch"],
            "boundaries": total["boundaries"],
            "sim_cycles": total["cycles"],
            "sim_seconds_at_1.024MHz": round(total["cycles"] / 1_024_000, 3),
            "faults_fired": dict(sorted(total["faults"].items())),
            "probes": dict(sorted(probes.items())),
            "extra": dict(sorted(total["extra"].items())),
            "distinct_schedules": len(total["sigs"]),
            "distinct_schedules_measure": getattr(prop, "SCHEDULE_MEASURE", "distinct per-run signatures (see rule)"),
            "known_findings_seen": known_seen,
            "new_violations": reported,
            "components": prop.COMPONENTS,
            "determinism": det,
            "wall_capped": capped,
            "harness_errors": total["harness_errors"][:20],
            "jobs": jobs,
        },
        "assumptions": getattr(prop, "ASSUMPTIONS", []),
    }
    EVIDENCE_DIR.mkdir(exist_ok=True)
    (EVIDENCE_DIR / f"{prop_id}.json").write_text(json.dumps(evidence, indent=1, sort_keys=True))
    print(f"{prop_id} {tier}: runs={total['runs']} nontrivial_distinct={len(total['sigs'])} "
          f"boundaries={total['boundaries']} cycles={total['cycles']} known={sum(known_seen.values())} "
          f"new={len(reported)} wall={wall:.1f}s determinism={det}")
    if total["harness_errors"]:
        for e in total["harness_errors"][:10]:
            print("HARNESS-ERROR " + e.replace("\n", " | ")[:1200])
        if exit_code == 0:
            return 2
    if total["runs"] == 0 and exit_code == 0:
        print("HARNESS-ERROR no runs executed")
        return 2
    return exit_code
