"""Step records and the interrupt-controller reference model (C12; reused by C05/C16).

The model is written from the property text, not from either implementation:

  * an interrupt may be taken only if IMR bit 7 (master) is set and some source is both
    unmasked and pending (IMR & ISR & 0x7F != 0) at the instant of delivery;
  * delivery pushes resume PC (3 bytes LE), F, IMR — so that from the new S upwards memory
    holds IMR, F, PC — clears IMR bit 7 only, and continues at the vector;
  * the matching RETI restores PC, F, IMR and S, and leaves BA, I, X, Y, U as they were;
  * a request that rose while it could not be taken is taken within K_IRQ boundaries once
    it can be (and is not silently dropped by the machine);
  * a halted CPU executes nothing, leaves halt only with a status bit pending, and does
    leave within K_WAKE boundaries of one being pending; off additionally stops timers.
"""
from __future__ import annotations

from typing import Any, Dict, List, Optional

from .machine import (O_BA, O_CYC, O_F, O_I, O_IMR, O_INS, O_IRQ, O_ISR, O_NMTI, O_NSTI, O_PC, O_PWR,
                      O_S, O_SHADOW, O_STACK, O_U, O_X, O_Y)

K_IRQ = 4
K_WAKE = 2
SRC_BITS = (1, 2, 4, 8)
SRC_NAME = {1: "MTI", 2: "STI", 4: "KEYI", 8: "ONKI"}
ISR_WRITERS = ("MV_ISR", "AND_ISR", "OR_ISR", "H:clear")


def image_bytes(scn: Dict[str, Any]) -> Dict[int, int]:
    img: Dict[int, int] = {}
    for addr, data in scn["prog"]["image"]:
        for i, b in enumerate(data):
            img[addr + i] = b
    return img


def build_steps(scn: Dict[str, Any], hist: Dict[str, Any]) -> List[Dict[str, Any]]:
    """One record per executed step: pre (after ops), post, ops, delivery record, the
    instruction that executed (address/opcode/tag) and the state right after it."""
    obs = hist["obs"]
    preobs = hist.get("preobs", {})
    ex = scn["exec"]
    img = image_bytes(scn)
    ins = scn["prog"]["ins"]
    handler = scn["prog"]["handler"]
    ops_at: Dict[int, List[list]] = {}
    for op in scn.get("ops", []):
        ops_at.setdefault(op[0], []).append(op)
    # ops with at <= k are applied before step k; ops scheduled beyond the first boundary
    # they can reach are applied at that boundary — mirror executor behaviour exactly
    steps: List[Dict[str, Any]] = []
    applied_upto = -1
    for k in range(len(obs) - 1):
        prev_post = obs[k]
        pre = preobs.get(str(k), prev_post)
        post = obs[k + 1]
        kops = []
        for at in sorted(a for a in ops_at if applied_upto < a <= k):
            kops.extend(ops_at[at])
        applied_upto = k
        executed = post[O_INS] != pre[O_INS]
        delivered = post[O_IRQ] != pre[O_IRQ]
        rec: Dict[str, Any] = {"k": k, "pre": pre, "post": post, "ops": kops, "prev_post": prev_post,
                               "executed": executed, "delivered": delivered, "deliv": None}
        if ex == "rs-machine":
            sh = post[O_SHADOW] if len(post) > O_SHADOW else None
            if executed and sh:
                after = {"pc": sh[0], "f": sh[1], "s": sh[2], "imr": sh[4],
                         "regs": [sh[5], sh[6], sh[7], sh[8], sh[9]]}
                ex_addr = pre[O_PC]
                opcode = sh[3]
            else:
                after = {"pc": pre[O_PC], "f": pre[O_F], "s": pre[O_S], "imr": pre[O_IMR],
                         "regs": [pre[O_BA], pre[O_I], pre[O_X], pre[O_Y], pre[O_U]]}
                ex_addr = None
                opcode = None
            rec["after"] = after
            if delivered:
                s_before = after["s"] & 0xFFFFF
                frame = post[O_STACK][:5] if (post[O_S] & 0xFFFFF) == ((s_before - 5) & 0xFFFFF) else None
                rec["deliv"] = {
                    "resume_pc": after["pc"], "f": after["f"], "s_before": s_before,
                    "imr_before": after["imr"], "imr_d": after["imr"], "isr_d": post[O_ISR],
                    "frame": frame, "imr_after": post[O_IMR], "pc_ok": post[O_PC] == handler,
                    "s_after": post[O_S] & 0xFFFFF, "regs_before": after["regs"],
                    "regs_after": [post[O_BA], post[O_I], post[O_X], post[O_Y], post[O_U]],
                    "order": "after_exec",
                }
        else:
            extra = post[O_SHADOW] if len(post) > O_SHADOW else None
            if delivered:
                tap = (extra or {}).get("tap")
                frame = (extra or {}).get("frame")
                s_before = pre[O_S] & 0xFFFFF
                rec["deliv"] = {
                    "resume_pc": pre[O_PC], "f": pre[O_F], "s_before": s_before,
                    "imr_before": tap[3] if tap else pre[O_IMR],
                    "imr_d": tap[3] if tap else pre[O_IMR],
                    "isr_d": tap[2] if tap else pre[O_ISR],
                    "frame": frame, "imr_after": tap[1] if tap else None,
                    # Python executes the first handler instruction (a NOP by discipline)
                    # in the same step
                    "pc_ok": (post[O_PC] == handler + 1) if executed else (post[O_PC] == handler),
                    "s_after": post[O_S] & 0xFFFFF,
                    "regs_before": [pre[O_BA], pre[O_I], pre[O_X], pre[O_Y], pre[O_U]],
                    "regs_after": [post[O_BA], post[O_I], post[O_X], post[O_Y], post[O_U]],
                    "order": "before_exec",
                }
                ex_addr = handler if executed else None
            else:
                ex_addr = pre[O_PC] if executed else None
            opcode = img.get(ex_addr) if ex_addr is not None else None
            rec["after"] = {"pc": post[O_PC], "f": post[O_F], "s": post[O_S], "imr": post[O_IMR],
                            "regs": [post[O_BA], post[O_I], post[O_X], post[O_Y], post[O_U]]}
        rec["ex_addr"] = ex_addr
        rec["opcode"] = opcode
        rec["tag"] = (ins.get(str(ex_addr)) or [0, ""])[1] if ex_addr is not None else ""
        steps.append(rec)
    return steps


def stack_ready(o: list) -> bool:
    """A five-byte frame fits below the system stack pointer.  During a boot phase (S not loaded yet) a machine may hold
    a request back — it then counts as one that rose while it could not be taken — but must take it once S is loaded."""
    return (o[O_S] & 0xFFFFF) >= 5


def power_of(scn: Dict[str, Any], o: list, img: Dict[int, int]) -> int:
    """0 running, 1 halted, 2 off.  The Python machine has one flag for HALT and OFF; which
    instruction stopped it is read from the (immutable) code image."""
    p = o[O_PWR]
    if p == 1 and scn["exec"] == "py-machine":
        if img.get((o[O_PC] - 1) & 0xFFFFF) == 0xDF:
            return 2
    return p


class Viol(dict):
    pass


def check_irq(scn: Dict[str, Any], hist: Dict[str, Any], steps: Optional[List[Dict[str, Any]]] = None):
    """Return (violations, facts).  facts carries probe counters and the schedule signature."""
    ex = scn["exec"]
    img = image_bytes(scn)
    handler = scn["prog"]["handler"]
    if steps is None:
        steps = build_steps(scn, hist)
    viols: List[Dict[str, Any]] = []
    probes: Dict[str, int] = {}
    sig: List[tuple] = []

    def probe(name: str, n: int = 1) -> None:
        probes[name] = probes.get(name, 0) + n

    def V(cls: str, k: int, msg: str, **where) -> None:
        viols.append({"cls": cls, "executor": ex, "where": where, "msg": f"boundary {k}: {msg}", "at": k})

    frames: List[Dict[str, Any]] = []
    owed = {b: False for b in SRC_BITS}           # rose while it could not be taken, unserved
    deliv_since = {b: False for b in SRC_BITS}    # some *other* delivery happened since it became owed
    owed_in_handler = {b: False for b in SRC_BITS}  # the request rose while a handler was running
    window = {b: 0 for b in SRC_BITS}             # consecutive deliverable boundaries
    wake_run = 0
    max_latency = 0
    off_sync = None                               # (next_mti, next_sti) while off

    for st in steps:
        k, pre, post = st["k"], st["pre"], st["post"]
        pw_pre = power_of(scn, pre, img)
        pw_post = power_of(scn, post, img)
        in_handler = len(frames) > 0
        d = st["deliv"]
        tag = st["tag"]
        opcode = st["opcode"]

        # ---- ops: external edges (signature + owed bookkeeping through the pre observation)
        prev = st["prev_post"]
        for op in st["ops"]:
            sig.append((op[1], op[2] if len(op) > 2 else 0, pw_pre, in_handler,
                        pre[O_IMR] >> 7, pre[O_IMR] & 0xF, pre[O_ISR] & 0xF))
            probe("op_" + op[1])
            if op[1] == "onk" and op[2] and pw_pre == 2:
                probe("onk_while_off")
            if op[1] in ("key", "onk") and pw_pre == 1:
                probe("event_while_halted")
            if in_handler:
                probe("event_inside_handler")
        if st["ops"]:
            for bit in SRC_BITS:
                if (pre[O_ISR] & bit) and not (prev[O_ISR] & bit):
                    deliverable = (pre[O_IMR] & 0x80) and (pre[O_IMR] & bit) and stack_ready(pre)
                    if not deliverable and not any(fr.get("served", 0) & bit for fr in frames):
                        if not owed[bit]:
                            deliv_since[bit] = False
                            owed_in_handler[bit] = bool(frames)
                        owed[bit] = True
                        probe("rise_while_masked")
                if not (pre[O_ISR] & bit) and (prev[O_ISR] & bit):
                    owed[bit] = False     # host-side clear (e.g. ON key released)

        def do_delivery():
            # ---- delivery: gate + frame
            if d is not None:
                probe("delivery")
                if frames:
                    probe("nested_delivery")
                if pw_pre == 1:
                    probe("delivery_out_of_halt")
                if tag == "WAIT" or (st["ex_addr"] is not None and img.get(st["ex_addr"]) == 0xEF):
                    probe("delivery_after_wait")
                pend = d["isr_d"] & 0x0F
                imr_d, isr_d = d["imr_d"], d["isr_d"]
                sig.append(("deliver", pw_pre, bool(frames), imr_d >> 7, imr_d & 0xF, isr_d & 0xF))
                if not (imr_d & 0x80):
                    srcs = "+".join(SRC_NAME[b] for b in SRC_BITS if isr_d & b) or "none"
                    V("gate_master", k, f"interrupt taken with IMR={imr_d:#04x} (master clear), ISR={isr_d:#04x} "
                      f"(pending {srcs})", key_or_onk_pending=bool(isr_d & 0x0C))
                elif not (isr_d & 0x7F):
                    V("gate_not_pending", k, f"interrupt taken with no status bit pending (IMR={imr_d:#04x} ISR={isr_d:#04x})")
                elif not (imr_d & isr_d & 0x7F):
                    srcs = "+".join(SRC_NAME[b] for b in SRC_BITS if isr_d & b) or "other"
                    V("gate_mask", k, f"interrupt taken but no pending source is unmasked (IMR={imr_d:#04x} ISR={isr_d:#04x}, "
                      f"pending {srcs})")
                if bin(isr_d & imr_d & 0xF).count("1") > 1:
                    probe("two_sources_deliverable")
                # frame
                fr = d["frame"]
                s_before = d["s_before"]
                bad = []
                if d["s_after"] != ((s_before - 5) & 0xFFFFF):
                    bad.append(f"S={d['s_after']:#x} expected {((s_before - 5) & 0xFFFFF):#x}")
                if fr is None:
                    bad.append("frame not at S_old-5")
                else:
                    exp = [d["imr_before"], d["f"], d["resume_pc"] & 0xFF, (d["resume_pc"] >> 8) & 0xFF,
                           (d["resume_pc"] >> 16) & 0xFF]
                    names = ["IMR", "F", "PC0", "PC1", "PC2"]
                    for i in range(5):
                        if fr[i] != exp[i]:
                            bad.append(f"{names[i]}={fr[i]:#04x} expected {exp[i]:#04x}")
                if d["imr_after"] is not None and d["imr_after"] != (d["imr_before"] & 0x7F):
                    bad.append(f"IMR after={d['imr_after']:#04x} expected {(d['imr_before'] & 0x7F):#04x}")
                if not d["pc_ok"]:
                    bad.append(f"PC after delivery {post[O_PC]:#x}, vector -> {handler:#x}")
                if d["regs_after"] != d["regs_before"]:
                    bad.append("delivery changed BA/I/X/Y/U")
                if bad:
                    V("frame", k, "; ".join(bad), field=bad[0].split("=")[0].split(" ")[0])
                frames.append({"kind": "hw", "s_before": s_before, "pc": d["resume_pc"], "f": d["f"],
                               "imr": d["imr_before"], "regs": d["regs_before"], "k": k,
                               "served": imr_d & isr_d & 0x0F})
                # every source unmasked+pending at that instant counts as served (weakest)
                for bit in SRC_BITS:
                    if (imr_d & bit) and (isr_d & bit):
                        if owed[bit]:
                            probe("masked_then_taken")
                        owed[bit] = False
                    elif owed[bit]:
                        deliv_since[bit] = True

        def do_instruction():
            # ---- the instruction that executed
            if st["executed"] and opcode is not None:
                aft = st["after"]
                if opcode == 0xFE and not (d is not None and d["order"] == "before_exec"):
                    # software interrupt: a call through the vector that RETI must undo
                    probe("ir")
                    exp_pc = (pre[O_PC] + 1) & 0xFFFFF
                    s_before = pre[O_S] & 0xFFFFF
                    bad = []
                    chk = post if d is None else None
                    if chk is not None:
                        if (post[O_S] & 0xFFFFF) != ((s_before - 5) & 0xFFFFF):
                            bad.append(f"S={post[O_S]:#x}")
                        else:
                            fr = post[O_STACK][:5]
                            exp = [pre[O_IMR], pre[O_F], exp_pc & 0xFF, (exp_pc >> 8) & 0xFF, (exp_pc >> 16) & 0xFF]
                            for i, nm in enumerate(["IMR", "F", "PC0", "PC1", "PC2"]):
                                if fr[i] != exp[i]:
                                    bad.append(f"{nm}={fr[i]:#04x} expected {exp[i]:#04x}")
                        if post[O_PC] != handler:
                            bad.append(f"PC={post[O_PC]:#x} expected vector {handler:#x}")
                        if post[O_IMR] != (pre[O_IMR] & 0x7F):
                            bad.append(f"IMR={post[O_IMR]:#04x} expected {(pre[O_IMR] & 0x7F):#04x}")
                        if bad:
                            V("ir_frame", k, "IR: " + "; ".join(bad), field=bad[0].split("=")[0])
                    frames.append({"kind": "ir", "s_before": s_before, "pc": exp_pc, "f": pre[O_F],
                                   "imr": pre[O_IMR], "k": k,
                                   "regs": [pre[O_BA], pre[O_I], pre[O_X], pre[O_Y], pre[O_U]]})
                elif opcode == 0x01 and tag == "BARE_RETI":
                    # a RETI over a frame the program built by hand (no interrupt was taken): PC, F, IMR and S come from
                    # the frame; which status bits it may touch is judged below (none: it serves no request)
                    probe("reti_hand_built_frame")
                    want = (scn["prog"].get("bare") or {}).get(str(pre[O_PC]))
                    if want and not (d is not None and d["order"] == "before_exec"):
                        bad = []
                        if aft["pc"] != want[0]:
                            bad.append(f"PC={aft['pc']:#x} expected {want[0]:#x}")
                        if (aft["f"] & 3) != (want[1] & 3):
                            bad.append(f"F={aft['f']:#04x} expected {want[1]:#04x}")
                        if aft["imr"] != want[2]:
                            bad.append(f"IMR={aft['imr']:#04x} expected {want[2]:#04x}")
                        if (aft["s"] & 0xFFFFF) != want[3]:
                            bad.append(f"S={aft['s']:#x} expected {want[3]:#x}")
                        if bad:
                            V("reti", k, "RETI over a hand-built frame: " + "; ".join(bad), field=bad[0].split("=")[0], kind="hand_built")
                elif opcode == 0x01:
                    # RETI.  With delivery-before-execute ordering the RETI ran from `pre`;
                    # with execute-before-delivery ordering its result is `after`.
                    s_at = pre[O_S] & 0xFFFFF
                    if d is not None and d["order"] == "before_exec":
                        s_at = None    # the executed instruction was the handler's first NOP
                    if frames and s_at is not None and s_at == ((frames[-1]["s_before"] - 5) & 0xFFFFF):
                        fr = frames.pop()
                        probe("reti")
                        bad = []
                        if aft["pc"] != fr["pc"]:
                            bad.append(f"PC={aft['pc']:#x} expected {fr['pc']:#x}")
                        if aft["f"] != fr["f"]:
                            bad.append(f"F={aft['f']:#04x} expected {fr['f']:#04x}")
                        if aft["imr"] != fr["imr"]:
                            bad.append(f"IMR={aft['imr']:#04x} expected {fr['imr']:#04x}")
                        if (aft["s"] & 0xFFFFF) != fr["s_before"]:
                            bad.append(f"S={aft['s']:#x} expected {fr['s_before']:#x}")
                        if aft["regs"] != fr["regs"]:
                            bad.append(f"BA/I/X/Y/U={aft['regs']} expected {fr['regs']}")
                        if bad:
                            V("reti", k, f"return from {fr['kind']} interrupt taken at boundary {fr['k']}: " + "; ".join(bad),
                              field=bad[0].split("=")[0], kind=fr["kind"])
                    elif frames and s_at is not None:
                        probe("reti_unmatched")
                        frames.clear()   # cannot interpret: resynchronise rather than guess

        if d is not None and d["order"] == "before_exec":
            do_delivery()
            do_instruction()
        else:
            do_instruction()
            do_delivery()

        # ---- status bits that vanish although nobody (firmware, host, RETI of their own
        # delivery) cleared them
        writer = tag in ISR_WRITERS or tag.startswith("H:clear")
        for bit in SRC_BITS:
            rose = (post[O_ISR] & bit) and not (pre[O_ISR] & bit)
            fell = (pre[O_ISR] & bit) and not (post[O_ISR] & bit)
            being_served = any(fr.get("served", 0) & bit for fr in frames)
            if rose and not writer and not being_served:
                # could it be taken at the end of this step?  (A further edge of a source
                # whose handler is still running is not a separate request: the handler's
                # acknowledge covers it — weakest reading.)
                deliverable = (post[O_IMR] & 0x80) and (post[O_IMR] & bit) and stack_ready(post)
                if d is not None and (d["imr_d"] & bit) and (d["isr_d"] & bit):
                    pass   # served immediately
                elif not deliverable:
                    if not owed[bit]:
                        deliv_since[bit] = False
                        owed_in_handler[bit] = bool(frames)
                    owed[bit] = True
                    probe("rise_while_masked")
            if fell:
                if owed[bit] and not writer and pw_pre != 2 and pw_post != 2:
                    V("lost_irq", k, f"status bit {SRC_NAME[bit]} pending-but-masked since it rose was dropped by the "
                      f"machine (instruction {tag or opcode}) without being taken",
                      how="status_dropped", source=SRC_NAME[bit], by=("RETI" if opcode == 0x01 else (tag or "step")))
                if owed[bit] and (pw_pre == 2 or pw_post == 2):
                    probe("off_discard")
                owed[bit] = False

        # ---- halted / off
        if pw_pre in (1, 2):
            if pw_post in (1, 2):
                same = all(pre[i] == post[i] for i in (O_PC, O_BA, O_I, O_X, O_Y, O_U, O_S, O_F))
                if not same or post[O_INS] != pre[O_INS]:
                    V("halt_executes", k, "state changed while halted/off",
                      state="off" if pw_pre == 2 else "halted")
                probe("halted_boundary" if pw_pre == 1 else "off_boundary")
            else:
                # left low-power state during this step
                isr_eff = post[O_ISR] | pre[O_ISR]
                if d is None and isr_eff == 0:
                    V("halt_early_wake", k, f"left {'off' if pw_pre == 2 else 'halt'} with no status bit pending",
                      state="off" if pw_pre == 2 else "halted")
                probe("wake")
            if pw_pre == 2:
                # timers must stand still while powered off
                new_t = (post[O_ISR] & ~pre[O_ISR]) & 3
                moved = (post[O_NMTI], post[O_NSTI]) != (pre[O_NMTI], pre[O_NSTI])
                if pw_post == 2 and (new_t or moved):
                    V("off_timer_runs", k, f"timer activity while powered off (new bits {new_t:#x}, targets moved={moved})",
                      what="fired" if new_t else "target_moved")
                elif pw_post != 2 and new_t and not (post[O_ISR] & 8) and d is None:
                    V("off_timer_runs", k, "woken from off by a timer", what="woke")
        # wake liveness: a status bit pending at two consecutive fault-free boundaries
        wake_bits = pre[O_ISR] & (0x08 if pw_pre == 2 else 0x0F)
        if not (scn.get("kb") or {}).get("kb_irq", True):
            wake_bits &= ~0x04      # keyboard interrupts switched off by the host: KEYI is not a wake-up source then
                                    # (configuration semantics the property does not speak about; ON key and timers are)
        if pw_pre in (1, 2) and wake_bits and not st["ops"]:
            wake_run += 1
            if wake_run >= K_WAKE and pw_post in (1, 2):
                V("halt_late_wake", k, f"still {'off' if pw_pre == 2 else 'halted'} although ISR={pre[O_ISR]:#04x} "
                  f"has been pending for {wake_run} boundaries", state="off" if pw_pre == 2 else "halted")
                wake_run = 0
        else:
            wake_run = 0

        # ---- bounded liveness: owed, unmasked, pending, running, outside a handler
        for bit in SRC_BITS:
            # inside a handler too: delivery clears the master enable, so a request can only be deliverable there
            # when the handler re-enabled interrupts itself ("not re-entered unless it re-enables interrupts itself")
            can = (owed[bit] and (pre[O_IMR] & 0x80) and (pre[O_IMR] & bit) and (pre[O_ISR] & bit) and stack_ready(pre)
                   and not any(fr.get("served", 0) & bit for fr in frames) and pw_pre != 2 and not st["ops"])
            if d is not None:
                window[bit] = 0
                continue
            if can:
                window[bit] += 1
                max_latency = max(max_latency, window[bit])
                if window[bit] == 1:
                    probe("unmask_window")
                if window[bit] >= K_IRQ:
                    V("lost_irq", k, f"{SRC_NAME[bit]} rose while masked, has been unmasked and pending for "
                      f"{K_IRQ} fault-free boundaries and was not taken (IMR={pre[O_IMR]:#04x} ISR={pre[O_ISR]:#04x})",
                      how="not_taken", source=SRC_NAME[bit], other_delivery_since_rise=deliv_since[bit],
                      in_handler=in_handler, rose_in_handler=owed_in_handler[bit])
                    window[bit] = 0
                    owed[bit] = False
            else:
                window[bit] = 0
        if (post[O_ISR] & 3) == 3 and (pre[O_ISR] & 3) == 0:
            probe("both_timers_same_step")

    facts = {"probes": probes, "sig": sig, "max_latency": max_latency,
             "deliveries": probes.get("delivery", 0)}
    return viols, facts
