"""Core-level scenarios: the Python Emulator and the Rust LlamaExecutor over the same dumb
flat bus (byte-split little-endian, 24-bit wrap, internal memory at 0x100000-0x1000FF),
so that any divergence is the cores'.  Programs are built from the repository's own opcode
table with the repository's decoder as the acceptor.
"""
from __future__ import annotations

from typing import Any, Dict, List, Optional, Tuple

from .rng import Rng
from .rshost import HarnessError, host

CODE_LO, CODE_HI = 0x01000, 0x017FF
DATA = 0x20000          # data region the pointer registers are steered into
STACK_S, STACK_U = 0x30800, 0x31800
INT0 = 0x100000
PRES = [0x21, 0x22, 0x23, 0x24, 0x25, 0x26, 0x27, 0x30, 0x31, 0x32, 0x33, 0x34, 0x35, 0x36, 0x37]
OPERAND_BIAS = [0x00, 0x01, 0x7F, 0x80, 0xFF, 0xEC, 0xED, 0xEE, 0xFB, 0xFC, 0xFE, 0xFF, 0x10, 0x20]

_DEC = None


def _decoder():
    global _DEC
    if _DEC is None:
        try:
            from sc62015.pysc62015.instr import decode, OPCODES
            from binja_test_mocks.tokens import asm_str
        except Exception as e:  # pragma: no cover
            raise HarnessError(f"cannot import repository decoder: {e!r}")
        _DEC = (decode, OPCODES, asm_str)
    return _DEC


def try_decode(bs: List[int], addr: int) -> Optional[Tuple[int, str]]:
    """(length, mnemonic) if the repository decoder accepts the bytes, else None."""
    decode, OPCODES, asm_str = _decoder()
    try:
        ins = decode(bytes(bs), addr, OPCODES)
        if ins is None:
            return None
        ln = ins.length()
        if not (0 < ln <= len(bs)):
            return None
        return ln, ins.name()
    except Exception:
        return None


def _walk_operands(ins):
    seen = set()
    stack = list(getattr(ins, "_operands", []) or [])
    while stack:
        o = stack.pop()
        if id(o) in seen or not hasattr(o, "__dict__") or type(o).__name__.endswith("Mode"):
            continue
        seen.add(id(o))
        yield o
        for k, v in vars(o).items():
            if k.startswith("_parent"):
                continue
            if isinstance(v, (list, tuple)):
                stack.extend(v)
            elif hasattr(v, "__dict__") and not isinstance(v, type):
                stack.append(v)


def canonical(bs: List[int], addr: int) -> bool:
    """True for encodings an assembler for the documented ISA can produce: register selectors of the
    class the opcode names (ADD r1,r1 / r2,r2 / r3,r; MV/EX r2,r2 or r3,r3), unused selector bits
    clear, absolute addresses inside the 20-bit space and not straddling its top, and a PRE prefix only
    in front of an instruction that has an internal-memory operand.  The repository decoder is
    lenient about these (it accepts them and gives them some meaning); what the two cores do with
    them is outside "every valid instruction encoding"."""
    decode, OPCODES, _ = _decoder()
    try:
        ins = decode(bytes(bs), addr, OPCODES)
    except Exception:
        return False
    if ins is None:
        return False
    has_imem = False
    name = ins.name()
    for o in _walk_operands(ins):
        tn = type(o).__name__
        if "IMem" in tn:
            has_imem = True
        if tn == "RegPair":
            raw = o.reg_raw
            r1, r2 = (raw >> 4) & 7, raw & 7
            if raw & 0x88:
                return False
            if name in ("MV", "EX"):
                if not ((r1 in (2, 3) and r2 in (2, 3)) or (r1 >= 4 and r2 >= 4)):
                    return False
            elif o.size == 1:
                if r1 > 1 or r2 > 1:
                    return False
            elif o.size == 2:
                if r1 not in (2, 3) or r2 not in (2, 3):
                    return False
            elif o.size == 3:
                if r1 < 4:
                    return False
        elif tn == "Reg3":
            if o.reg_raw & 0x08:
                return False
            if getattr(ins, "opcode", None) == 0x11 and ((o.reg_raw & 7) < 4 or (o.reg_raw >> 4)):
                return False          # JP r3: a pointer register, no mode bits
        if hasattr(o, "extra_hi") and isinstance(getattr(o, "extra_hi"), int):
            # the high nibble of a 20-bit *immediate* is a don't-care (both decoders accept it and both cores must
            # ignore it); in an absolute address it would name a location outside the 20-bit space
            if (o.extra_hi & 0xF0) and tn != "Imm20":
                return False
            if tn == "EMemAddr" and ((o.extra_hi << 16) | (o.value or 0)) > 0xFFFFC:
                return False
    if bs and bs[0] in PRES and not has_imem:
        return False
    return True


# opcodes that are kept out of generated programs (each with its reason)
EXCLUDED = {
    0xFF,   # RESET: jumps through the vector and rewrites system registers; exercised by machine-level properties
    0xEF,   # WAIT: Python burns I host-side; timing is C13's
}
CONTROL = {0x02, 0x03, 0x04, 0x05, 0x06, 0x07, 0x10, 0x11, 0x12, 0x13, 0x14, 0x15, 0x16, 0x17, 0x18, 0x19, 0x1A, 0x1B,
           0x1C, 0x1D, 0x1E, 0x1F, 0x01, 0xFE}
LOWPOWER = {0xDE, 0xDF}


_REGPAIR_SEL = {0x44: ((2, 3), (2, 3)), 0x4C: ((2, 3), (2, 3)), 0x46: ((0, 1), (0, 1)), 0x4E: ((0, 1), (0, 1)),
                0x45: ((4, 5, 6, 7), (0, 1, 2, 3, 4, 5, 6, 7)), 0x4D: ((4, 5, 6, 7), (0, 1, 2, 3, 4, 5, 6, 7))}


def _propose(r: Rng, op: int, canon: bool) -> List[int]:
    bs: List[int] = []
    if r.chance(1, 4):
        bs.append(r.choice(PRES))
    bs.append(op)
    for _ in range(6):
        bs.append(r.choice(OPERAND_BIAS) if r.chance(1, 3) else r.below(256))
    if canon:
        k = len(bs) - 6          # first operand byte
        # proposals only: canonical() decides.  Selector bytes of the class the opcode names, unused
        # selector bits clear, absolute addresses inside the 20-bit space.
        if op in _REGPAIR_SEL:
            a, b = _REGPAIR_SEL[op]
            bs[k] = (r.choice(a) << 4) | r.choice(b)
        elif op in (0xED, 0xFD):
            cls = r.choice([(2, 3), (4, 5, 6, 7)])
            bs[k] = (r.choice(cls) << 4) | r.choice(cls)
        elif r.chance(3, 4):
            bs[k] &= 0xF7
        if r.chance(7, 8):
            for j in (k + 2, k + 3):
                if bs[j] & 0xF0:
                    bs[j] = r.below(16) if r.chance(3, 4) else 0x02
    return bs


def gen_instruction(r: Rng, addr: int, opcode: Optional[int] = None, allow_control: bool = True,
                    canon: bool = False, avoid=()) -> Optional[List[int]]:
    """One valid encoding at `addr`: optional PRE prefix + opcode + biased operand bytes."""
    for _ in range(8):
        op = opcode if opcode is not None else r.below(256)
        if op in EXCLUDED or (op in PRES) or (op in avoid):
            if opcode is not None:
                return None
            continue
        if not allow_control and (op in CONTROL or op in LOWPOWER):
            if opcode is not None:
                return None
            continue
        for _attempt in range(12 if canon else 1):
            bs = _propose(r, op, canon)
            d = try_decode(bs, addr)
            if d is None:
                continue
            if canon and not canonical(bs[:d[0]], addr):
                continue
            return bs[:d[0]]
        if opcode is not None:
            return None
    return None


def gen_program(r: Rng, n_instr: int, allow_control: bool = True, base: int = CODE_LO,
                canon: bool = False, avoid=()) -> Tuple[List[int], List[int]]:
    """Straight-line-ish program at CODE_LO: returns (bytes, instruction start offsets).
    Control transfers are kept (both replicas must agree wherever they go); near jumps are
    re-targeted into the code region half of the time so that loops and calls really run."""
    code: List[int] = []
    starts: List[int] = []
    while len(starts) < n_instr and len(code) < (CODE_HI - CODE_LO - 16):
        addr = base + len(code)
        ins = gen_instruction(r, addr, allow_control=allow_control, canon=canon, avoid=avoid)
        if ins is None:
            continue
        op = ins[1] if ins[0] in PRES and len(ins) > 1 else ins[0]
        if op in (0x02, 0x04, 0x14, 0x15, 0x16, 0x17) and len(ins) >= 3 and r.chance(2, 3) and starts:
            tgt = base + r.choice(starts)
            ins[-2], ins[-1] = tgt & 0xFF, (tgt >> 8) & 0xFF
        if op in (0x03, 0x05) and len(ins) >= 4 and r.chance(2, 3) and starts:
            tgt = base + r.choice(starts)
            ins[-3], ins[-2], ins[-1] = tgt & 0xFF, (tgt >> 8) & 0xFF, (tgt >> 16) & 0x0F
        if 0x12 <= op <= 0x1F and op not in (0x14, 0x15, 0x16, 0x17) and len(ins) >= 2:
            # short relative displacements stay near the code; one in six is a large one (0x7F and up: the
            # displacement byte is unsigned, direction comes from the opcode)
            ins[-1] = r.range(0, 12) if r.chance(5, 6) else r.choice([0x7F, 0x80, 0x90, 0xC0, 0xFF])
        starts.append(len(code))
        code.extend(ins)
    # pad with NOPs so that falling off the last instruction stays decodable until the region ends
    code.extend([0x00] * 8)
    return code, starts


def gen_state(r: Rng) -> Dict[str, Any]:
    """Architectural state: registers steered into mapped regions, flags, internal memory."""
    def ptr():
        return DATA + r.below(0x200) if r.chance(3, 4) else r.below(0x100000)
    regs = {"BA": r.below(0x10000), "I": r.choice([1, 1, 2, 3, 5, 8, r.below(0x30)]), "X": ptr(), "Y": ptr(),
            "U": STACK_U + r.below(0x40), "S": STACK_S + r.below(0x40), "F": r.below(4), "PC": CODE_LO}
    imem = [r.below(256) for _ in range(256)]
    imem[0xEC] = r.choice([0x00, 0x10, 0x40, 0x80, 0xE0, r.below(256)])   # BP
    imem[0xED] = r.choice([0x00, 0x08, 0x20, r.below(256)])                # PX
    imem[0xEE] = r.choice([0x00, 0x04, 0x30, r.below(256)])                # PY
    data = [r.below(256) for _ in range(0x240)]
    stack = [r.below(256) for _ in range(0x100)]
    return {"regs": regs, "imem": imem, "data": data, "stack": stack}


def image_of(scn: Dict[str, Any]) -> List[Tuple[int, List[int]]]:
    st = scn["state"]
    return [(scn.get("base", CODE_LO), scn["code"]), (DATA, st["data"]), (STACK_S - 0x40, st["stack"]), (STACK_U - 0x40, st["stack"]),
            (INT0, st["imem"])]


# ----------------------------------------------------------------------------------------
# Python replica


class PyFlat:
    def __init__(self):
        self.ext = bytearray(0x100000)
        self.imem = bytearray(256)
        self.writes: Dict[int, int] = {}
        self.acc: Optional[List[Tuple[int, int, int]]] = None   # (raw 24-bit address, value, is_write) when logging

    def rd(self, a: int) -> int:
        a &= 0xFFFFFF
        if 0x100000 <= a < 0x100100:
            v = self.imem[a - 0x100000]
        else:
            v = self.ext[a & 0xFFFFF]     # outside the internal window the external space wraps modulo 1 MiB
        if self.acc is not None:
            self.acc.append((a, v, 0))
        return v

    def wr(self, a: int, v: int) -> None:
        a &= 0xFFFFFF
        if self.acc is not None:
            self.acc.append((a, v & 0xFF, 1))
        if 0x100000 <= a < 0x100100:
            self.imem[a - 0x100000] = v & 0xFF
        else:
            a &= 0xFFFFF
            self.ext[a] = v & 0xFF
        self.writes[a] = v & 0xFF

    def load(self, addr: int, data: List[int]) -> None:
        for i, b in enumerate(data):
            a = (addr + i) & 0xFFFFFF
            if a < 0x100000:
                self.ext[a] = b
            elif a < 0x100100:
                self.imem[a - 0x100000] = b


def new_py_core(scn: Dict[str, Any]):
    from binja_test_mocks.eval_llil import Memory
    from sc62015.pysc62015.emulator import Emulator, RegisterName
    bus = PyFlat()
    for addr, data in image_of(scn):
        bus.load(addr, data)
    emu = Emulator(Memory(bus.rd, bus.wr), reset_on_init=False)
    for name, v in scn["state"]["regs"].items():
        emu.regs.set(RegisterName[name], v)
    return emu, bus


def py_record(emu, bus, pc: int, opcode: int, ln: int, err) -> list:
    from sc62015.pysc62015.emulator import RegisterName as R
    g = emu.regs.get
    return [pc, opcode, ln, g(R.BA), g(R.I), g(R.X), g(R.Y), g(R.U), g(R.S), g(R.PC) & 0xFFFFF, g(R.FC), g(R.FZ),
            1 if emu.state.halted else 0, sorted([a, v] for a, v in bus.writes.items()), err]


BLOCK_OPS = frozenset([0x54, 0x55, 0x5C, 0x5D, 0xC4, 0xC5, 0xD4, 0xD5, 0xEC, 0xFC, 0xCB, 0xCF, 0xD3, 0xDB, 0xE3, 0xEB,
                       0x56, 0x5E, 0xC3, 0xF3, 0xFB])


def access_features(acc, pc: int, ln: int) -> Dict[str, int]:
    """What the Python replica's data accesses of one instruction looked like (instruction fetch excluded):
    ar = BP/PX/PY (internal 0xEC-0xEE) read or written; ov = an access just outside the internal window
    (0x100100.. above it, 0xFFF00-0xFFFFF below it: an internal pointer that ran over an end); arw = BP/PX/PY
    written; nbcd = a byte
    that is not two BCD digits was read or written; n = number of data accesses."""
    ar = arw = ov = nbcd = n = 0
    lo, hi = pc, pc + max(ln, 1) + 8
    rmin = rmax = wmin = wmax = None
    last = {0: None, 1: None}
    dirn = {0: 0, 1: 0}
    wrap = 0
    for a, v, w in acc or ():
        if not w and lo <= a < hi:
            continue
        n += 1
        if not (0x1000EC <= a <= 0x1000EE):
            k = 1 if w else 0
            if last[k] is not None and a != last[k]:
                d = 1 if a > last[k] else -1
                if abs(a - last[k]) > 1 or (dirn[k] and d != dirn[k]):
                    wrap = 1            # a pointer jumped: it wrapped inside the 256-byte page (or the space)
                dirn[k] = d
            last[k] = a
            if w:
                wmin, wmax = (a if wmin is None else min(wmin, a)), (a if wmax is None else max(wmax, a))
            else:
                rmin, rmax = (a if rmin is None else min(rmin, a)), (a if rmax is None else max(rmax, a))
        if 0x1000EC <= a <= 0x1000EE:
            ar = 1
            if w:
                arw = 1
        if 0x100100 <= a <= 0x1100FF or 0xFFF00 <= a <= 0xFFFFF:
            ov = 1
        if (v & 0x0F) > 9 or (v >> 4) > 9:
            nbcd = 1
    # how the bytes read and the bytes written by a block move lie to each other
    if rmin is None or wmin is None or wmax < rmin or rmax < wmin:
        move = "disjoint"
    elif wmin < rmin:
        move = "dst_below_src"
    elif wmin > rmin:
        move = "dst_above_src"
    else:
        move = "same"
    if wrap:
        move = "wrapped"
    return {"ar": ar, "arw": arw, "ov": ov, "nbcd": nbcd, "n": n, "move": move}


def py_run(emu, bus, n: int, lo: int = CODE_LO, hi: int = CODE_HI, stop_at=None, block_limit=None,
           features: bool = False) -> List[list]:
    """`stop_at`: opcodes (first byte after an optional PRE) that end the run before they execute;
    `block_limit`: a block instruction about to run with I above this (or I = 0, i.e. 65536) ends the run
    too (the Python core needs milliseconds per iteration)."""
    from sc62015.pysc62015.emulator import RegisterName as R
    out: List[list] = []
    for _ in range(n):
        pc = emu.regs.get(R.PC) & 0xFFFFF
        if not (lo <= pc <= hi) or emu.state.halted:
            break
        opcode = bus.rd(pc)
        fetched = [bus.rd(pc + k) for k in range(7)]
        if stop_at:
            first = fetched[1] if fetched[0] in PRES else fetched[0]
            if first in stop_at:
                break
            if block_limit is not None and first in BLOCK_OPS:
                iv = emu.regs.get(R.I)
                if iv > block_limit:
                    break
        bus.writes = {}
        bus.acc = [] if features else None
        try:
            info = emu.execute_instruction(pc)
            ln = int(info.instruction.length())
            err = None
            if type(info.instruction).__name__ == "_FallbackInstruction":
                # the repository decoder rejected the bytes and the emulator stepped over one byte:
                # not a valid encoding, the run ends here unjudged
                ln, err = -1, "fallback: not a valid encoding"
        except Exception as e:
            ln, err = -1, f"{type(e).__name__}: {e}"
        rec = py_record(emu, bus, pc, opcode, ln, err) + [fetched]
        if features:
            rec.append(access_features(bus.acc, pc, ln))
            bus.acc = None
        out.append(rec)
        if ln < 0:
            break
    return out


# ----------------------------------------------------------------------------------------
# Rust replica


def rs_setup(scn: Dict[str, Any], slot: int = 0) -> List[list]:
    ops: List[list] = [["c.new", slot]]
    for addr, data in image_of(scn):
        ops.append(["c.load", slot, addr, data])
    for name, v in scn["state"]["regs"].items():
        ops.append(["c.setreg", slot, name, v])
    return ops


def rs_norm(rec: list) -> list:
    """Rust reports power 0/1/2; the Python core has one low-power flag."""
    r = list(rec)
    r[12] = 1 if r[12] else 0
    return r
