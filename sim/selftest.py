"""Determinism self-test (`verif selftest [IDs] --seeds N`).

For every property module and batch, N seeds x the first runs of the batch are executed three
times: in one fresh interpreter under PYTHONHASHSEED=0, in another under PYTHONHASHSEED=7
(and therefore another simhost process and another dict/set order), and in a third under
PYTHONHASHSEED=12345 started from a pool of a different size.  The history digests must be
identical; a mismatch is a harness error (exit 2), never a violation.  The same comparison for
a small sample runs inside every check (runner.run_check); this command is the large one.
"""
from __future__ import annotations

import concurrent.futures as cf
import importlib
import sys
import time
from typing import Dict, List, Tuple

from . import build
from .rshost import HarnessError
from .runner import _fresh_digests

ALL = ["C01", "C05", "C06", "C07", "C08", "C10", "C11", "C12", "C13", "C14", "C15", "C16", "C18"]
RUNS_PER_SEED = 2


def _one(args: Tuple[str, str, int, str]) -> Tuple[str, str, int, str, Dict[int, str], str]:
    prop_id, batch, seed, hashseed = args
    try:
        return prop_id, batch, seed, hashseed, _fresh_digests(prop_id, batch, seed, "quick", RUNS_PER_SEED, hashseed), ""
    except Exception as e:  # reported, not raised: one broken batch must not hide the others
        return prop_id, batch, seed, hashseed, {}, f"{type(e).__name__}: {e}"[:300]


def main(props: List[str], seeds: int) -> int:
    build.ensure_simhost()
    props = [p.upper() for p in props] or ALL
    jobs: List[Tuple[str, str, int, str]] = []
    for pid in props:
        mod = importlib.import_module("sim.props." + pid.lower())
        for bt in mod.batches("quick"):
            for seed in range(1000, 1000 + seeds):
                for hs in ("0", "7", "12345"):
                    jobs.append((pid, bt.name, seed, hs))
    t0 = time.time()
    got: Dict[Tuple[str, str, int], Dict[str, Dict[int, str]]] = {}
    errors: List[str] = []
    # two pools of different sizes: the worker count is one of the things that must not matter
    half = len(jobs) // 2
    for chunk, workers in ((jobs[:half], 16), (jobs[half:], 5)):
        with cf.ThreadPoolExecutor(max_workers=workers) as pool:
            for pid, batch, seed, hs, dig, err in pool.map(_one, chunk):
                if err:
                    errors.append(f"{pid}/{batch} seed {seed} hashseed {hs}: {err}")
                    continue
                got.setdefault((pid, batch, seed), {})[hs] = dig
    mismatches = 0
    compared = 0
    for key, by_hs in sorted(got.items()):
        vals = list(by_hs.values())
        if len(vals) < 2:
            continue
        compared += 1
        if any(v != vals[0] for v in vals[1:]):
            mismatches += 1
            print(f"DETERMINISM-MISMATCH {key[0]}/{key[1]} seed {key[2]}: {by_hs}")
    for e in errors[:20]:
        print("HARNESS-ERROR", e)
    print(f"selftest: properties={len(props)} seeds={seeds} runs_per_seed={RUNS_PER_SEED} interpreters=3 "
          f"compared={compared} mismatches={mismatches} errors={len(errors)} wall={time.time() - t0:.1f}s")
    if mismatches or errors:
        return 2
    return 0


if __name__ == "__main__":
    try:
        sys.exit(main(sys.argv[1:], 8))
    except HarnessError as e:
        print(f"HARNESS-ERROR {e}")
        sys.exit(2)
