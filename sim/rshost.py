"""Client for the Rust simulation host: one long-lived child per worker process."""
from __future__ import annotations

import json
import os
import select
import signal
import subprocess
from typing import Any, List, Optional

from . import build


class HarnessError(Exception):
    """Anything that is the harness's fault (build failure, hung child, protocol error).
    Never reported as a VIOLATION; exit code 2."""


class RustPanic(Exception):
    """The core panicked while executing a scenario — a property-relevant observation
    (C01-style 'no unexpected error'), reported by the oracle that asked."""


class RsHost:
    def __init__(self, binary: Optional[str] = None, timeout_s: float = 60.0):
        self.binary = str(binary or build.ensure_simhost())
        self.timeout_s = timeout_s
        self.proc: Optional[subprocess.Popen] = None

    def _start(self) -> None:
        self.proc = subprocess.Popen(
            [self.binary], stdin=subprocess.PIPE, stdout=subprocess.PIPE,
            stderr=subprocess.DEVNULL, bufsize=0,
        )
        self._buf = b""

    def close(self) -> None:
        if self.proc is not None:
            try:
                self.proc.stdin.close()
            except Exception:
                pass
            try:
                self.proc.wait(timeout=2)
            except Exception:
                try:
                    os.kill(self.proc.pid, signal.SIGKILL)
                except Exception:
                    pass
            self.proc = None

    def _readline(self) -> bytes:
        fd = self.proc.stdout.fileno()
        while b"\n" not in self._buf:
            r, _, _ = select.select([fd], [], [], self.timeout_s)
            if not r:
                pid = self.proc.pid
                try:
                    os.kill(pid, signal.SIGKILL)
                except Exception:
                    pass
                self.proc = None
                raise HarnessError(f"simhost (pid {pid}) did not answer within {self.timeout_s}s")
            chunk = os.read(fd, 1 << 20)
            if not chunk:
                self.proc = None
                raise HarnessError("simhost exited unexpectedly")
            self._buf += chunk
        line, _, self._buf = self._buf.partition(b"\n")
        return line

    def call_keep(self, ops: List[list]) -> List[Any]:
        """Follow-up request of the same scenario: slots created by earlier requests survive."""
        return self.call(ops, reset=False)

    def call(self, ops: List[list], reset: bool = True) -> List[Any]:
        """Send one request (prefixed by a reset so slots never leak between scenarios)."""
        if self.proc is None or self.proc.poll() is not None:
            self._start()
        payload = json.dumps({"ops": ([["reset"]] if reset else []) + ops}, separators=(",", ":")).encode() + b"\n"
        try:
            self.proc.stdin.write(payload)
            self.proc.stdin.flush()
        except BrokenPipeError:
            self.proc = None
            raise HarnessError("simhost pipe broken")
        reply = json.loads(self._readline())
        if reply.get("ok"):
            return reply["out"]
        if reply.get("panic"):
            raise RustPanic(reply.get("err", "panic"))
        raise HarnessError("simhost: " + str(reply.get("err")))


_HOST: Optional[RsHost] = None


def host() -> RsHost:
    """Per-process singleton (each pool worker gets its own child after fork)."""
    global _HOST
    if _HOST is None or _HOST_PID != os.getpid():
        _new()
    return _HOST


_HOST_PID = -1


def _new() -> None:
    global _HOST, _HOST_PID
    _HOST = RsHost()
    _HOST_PID = os.getpid()
