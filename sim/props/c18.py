"""C18 — the virtual-time task scheduler wakes tasks exactly on time and in order.

Part 1 (rs-driver): scripted cooperative tasks (sleep d, optionally emit an event) run on
the real AsyncDriver under seeded budget partitions; a discrete-event reference model
(sorted wake list) says when every resumption is due.  Part 2 (rs-async): generated
firmware driven through AsyncRuntimeRunner with seeded slice sizes must leave the machine
exactly where CoreRuntime::step(n) leaves it.
"""
from __future__ import annotations

import copy
from typing import Any, Dict, List, Tuple

from .. import machine
from ..rng import Rng
from ..rshost import host
from ..runner import Batch, digest

ID = "C18"
TITLE = "The virtual-time task scheduler wakes tasks exactly on time and in order"
RULE = ("driver runs: 1-4 scripted tasks x 1-6 resumptions with sleeps from {0,1,2,3,5,8,13}, optional "
        "event per resumption, seeded partition of T into run_for budgets (incl. 0, 1, smaller than the "
        "next sleep, one big), start clock in {0,7,2^32}, optional late spawn; non-trivial = at least two "
        "tasks or one event, and at least two budgets; distinct = distinct (tasks, budgets) hash. "
        "async runs: generated firmware x slice size; non-trivial = at least one timer expiry or WAIT/HALT")
SCHEDULE_MEASURE = "distinct (task scripts, budget partition, start clock) hashes"
COMPONENTS = {
    "real": ["sc62015/core/src/async_driver.rs AsyncDriver::{new,with_clock,spawn,run_for}, sleep_cycles, emit_event, current_cycle",
             "sc62015/core/src/async_cpu.rs", "sc62015/core/src/async_runtime.rs AsyncRuntimeRunner",
             "sc62015/core/src/lib.rs CoreRuntime::step", "sc62015/core/src/async_devices.rs AsyncDisplayTask::run_frames, "
             "AsyncTimerKeyboardTask (C12's rs-async-timer batch)"],
    "stub": ["tasks are scripted futures written in /verif/rust/simhost (sleep/emit/log only)",
             "perfetto tracing compiled out"],
}
ASSUMPTIONS = ["a caller treats a MaxCycles return as 'the whole budget elapsed' and an event return as "
               "'cycles_executed elapsed' (the reading under which budgets partition a run)"]
PROBES = ["display_task_frame", "task_yields_without_sleep", "sleep_built_before_spawn", "sleep_for_ever", "unbounded_budget", "same_cycle_tie", "sleep_zero", "budget_zero", "budget_lt_sleep", "event_returned", "late_spawn",
          "two_events_same_cycle", "start_clock_big", "async_slice_1", "async_timer_fired", "async_halt"]
DUR = [0, 1, 2, 3, 5, 8, 13]
BIG = 1 << 20
U64MAX = (1 << 64) - 1
NEVER = 1 << 63          # a resumption due at or beyond this cycle is never owed


def batches(tier: str) -> List[Batch]:
    if tier == "quick":
        return [Batch("driver", "rs-driver", 400000, 2000), Batch("async", "rs-async", 20000, 100)]
    return [Batch("driver", "rs-driver", 2000000, 2000), Batch("async", "rs-async", 100000, 200)]


def _gen_task(r: Rng, with_events: bool) -> List[list]:
    steps = []
    for _ in range(r.range(1, 6)):
        d = r.choice(DUR)
        # payloads repeat on purpose (two tasks emitting the same value in one cycle are two events)
        e = (r.choice([7, 7, 42]) if r.chance(1, 3) else r.range(1, 99)) if (with_events and r.chance(1, 4)) else None
        # how the task waits: 0 = sleep_cycles(d).await; 1 = it returns Pending once without asking for a wake-up
        # (the driver's rule: polled again one cycle later); 2 = the sleep future was built before the task was
        # spawned (a plan made up front) and is only awaited here — its deadline still counts from the await
        st = r.weighted([(0, 8), (1, 2), (2, 2), (3, 2 if e is not None else 0)])
        # 3 = one frame of the crate's AsyncDisplayTask (period max(d, 1), emits the event itself)
        steps.append([1 if st == 1 else (max(d, 1) if st == 3 else d), e, st])
    if r.chance(1, 12):
        steps.append([U64MAX, None, r.choice([0, 2])])      # parks itself for ever
    return steps


def _partition(r: Rng, total: int) -> List[int]:
    style = r.below(6)
    if style == 0:
        return [total]
    if style == 1:
        return [1] * total
    out: List[int] = []
    rem = total
    while rem > 0:
        if style == 2:
            b = r.range(0, 3)
        elif style == 3:
            b = r.range(1, max(1, rem))
        elif style == 4:
            b = r.choice([0, 1, 2, 5, 10, 20])
        else:
            b = r.choice([1, 2, 3, 7])
        b = min(b, rem)
        out.append(b)
        rem -= b
        if len(out) > 60:
            out.append(rem)
            break
    return out


def generate(batch: str, r: Rng, idx: int, tier: str) -> Dict[str, Any]:
    if batch == "driver":
        with_events = r.chance(1, 2)
        tasks = [_gen_task(r.child("t", i), with_events) for i in range(r.range(1, 4))]
        horizon = max(sum(s[0] for s in t if s[0] < NEVER) for t in tasks)
        total = r.range(1, max(2, horizon + 6))
        late = None
        budgets = _partition(r.child("p"), total)
        if r.chance(1, 5) and len(budgets) > 1:
            late = [r.range(1, len(budgets) - 1), _gen_task(r.child("late"), with_events)]
        # the budgets that drain the queue after the partition: large, or "unbounded" as the command-line front end passes it
        return {"kind": "driver", "exec": "rs-driver", "start": r.choice([0, 0, 7, 1 << 32]),
                "tasks": tasks, "budgets": budgets, "late": late, "drain": r.child("drain").choice([BIG, BIG, U64MAX])}
    feat = machine.gen_features(r.child("feat"), {"timers": True, "imr_writes": True, "isr_writes": True,
                                                  "wait": True, "halt": True, "ir": True, "calls": True,
                                                  "far_calls": True, "nested": True, "off": True,
                                                  "keys": False, "onk": False, "h_lowpower": True, "selfmod": True})
    feat["timers"] = True
    scn = machine.gen_machine_scenario(r, "rs-machine", feat, boundaries=r.choice([20, 60, 150, 300]), faulty=False)
    scn["kind"] = "async"
    scn["exec"] = "rs-async"
    scn["slice"] = r.choice([1, 2, 3, 7, 64, 10000, 0])
    scn["split"] = r.range(0, scn["boundaries"])
    return scn


# ----------------------------------------------------------------------------------------


def _drive(scn: Dict[str, Any], budgets: List[int], late) -> Dict[str, Any]:
    ops = [["d.run", scn["start"], scn["tasks"], budgets] + ([late] if late else [])]
    return host().call(ops)[0]


def execute(scn: Dict[str, Any]) -> Dict[str, Any]:
    if scn["kind"] == "driver":
        drain = [scn.get("drain", BIG)] * (2 + sum(len(t) for t in scn["tasks"]) + (len(scn["late"][1]) if scn["late"] else 0))
        part = _drive(scn, scn["budgets"] + drain, scn["late"])
        again = _drive(scn, scn["budgets"] + drain, scn["late"])
        # single-budget reference: the late task is spawned at the same point of the call
        # sequence only when there is no late spawn (otherwise spawn time is part of the input)
        single = _drive(scn, drain, None) if not scn["late"] else None
        return {"part": part, "again": again, "single": single, "n_part": len(scn["budgets"])}
    # async vs sync: two machines from the same scenario
    n = scn["boundaries"]
    setup0 = machine.rs_setup_ops(scn, 0)
    setup1 = machine.rs_setup_ops(scn, 1)
    setup2 = machine.rs_setup_ops(scn, 2)
    watch = scn.get("watch", [])
    k = scn["split"]
    ops = setup0 + setup1 + setup2 + [
        ["m.stepn", 0, n], ["m.obs", 0, watch],
        ["a.run", 1, n, scn["slice"], watch],
        # split async run: k then n-k through two runners
        ["a.run", 2, k, scn["slice"], watch], ["a.run", 2, n - k, max(1, scn["slice"] // 2), watch],
    ]
    # the same split with the ON key pressed by the host between the two parts (the wake-up source of a machine that
    # powered itself off), synchronously and through the scheduler
    ops += machine.rs_setup_ops(scn, 3) + machine.rs_setup_ops(scn, 4)
    ops += [["m.stepn", 3, k], ["m.onk", 3, 1], ["m.stepn", 3, n - k], ["m.obs", 3, watch],
            ["a.run", 4, k, scn["slice"], watch], ["m.onk", 4, 1], ["a.run", 4, n - k, scn["slice"], watch]]
    out = host().call(ops)
    tail = out[-5:]          # ops without a result (setup, m.onk) do not appear in the reply
    return {"sync": out[0], "sync_obs": out[1], "async": out[2], "split_a": out[3], "split_b": out[4],
            "onk_sync_ok": [tail[0], tail[1]], "onk_sync_obs": tail[2], "onk_async_a": tail[3], "onk_async_b": tail[4]}


def _model(scn: Dict[str, Any], result_clocks: List[int]):
    """Reference: wake time of resumption i of task t is spawn + sum(d_0..d_i)."""
    due: Dict[Tuple[int, int], int] = {}
    events: List[Tuple[int, int, int, int]] = []   # (cycle, task, idx, event)
    for t, steps in enumerate(scn["tasks"]):
        c = scn["start"]
        for i, (d, e, *_) in enumerate(steps):
            c = min(c + d, U64MAX)
            due[(t, i)] = c
            if e is not None:
                events.append((c, t, i, e))
    if scn["late"]:
        bi, steps = scn["late"]
        spawn = result_clocks[bi - 1] if bi >= 1 else scn["start"]
        t = len(scn["tasks"])
        c = spawn
        for i, (d, e, *_) in enumerate(steps):
            c = min(c + d, U64MAX)
            due[(t, i)] = c
            if e is not None:
                events.append((c, t, i, e))
    return due, events


def check(scn: Dict[str, Any], hist: Dict[str, Any]) -> List[Dict[str, Any]]:
    viols: List[Dict[str, Any]] = []

    def V(cls, msg, **where):
        viols.append({"cls": cls, "executor": scn["exec"], "where": where, "msg": msg, "at": 0})

    if scn["kind"] == "async":
        s, a = hist["sync_obs"], hist["async"]
        if not hist["sync"].get("ok") or a.get("err"):
            if bool(hist["sync"].get("ok")) != (a.get("err") is None):
                V("async_vs_sync", f"one side failed: sync={hist['sync']} async_err={a.get('err')}", field="error")
            return viols
        names = ["PC", "BA", "I", "X", "Y", "U", "S", "F", "power", "IMR", "ISR", "cycles", "instructions",
                 "irq_total", "irq_depth", "in_interrupt", "irq_pending", "next_mti", "next_sti", "key_latched",
                 "fifo_len", "kil", "stack", "memory"]
        for label, other in (("async", a["obs"]), ("async_split", hist["split_b"]["obs"])):
            for i, nm in enumerate(names):
                if s[i] != other[i]:
                    V("async_vs_sync", f"{label}: {nm} sync={s[i]} async={other[i]} after {scn['boundaries']} "
                      f"instructions, slice {scn['slice']}", field=nm, mode=label)
                    break
        so, ab = hist.get("onk_sync_obs"), hist.get("onk_async_b")
        if so and ab and not ab.get("err") and not (hist.get("onk_async_a") or {}).get("err") and \
                all(isinstance(x, dict) and x.get("ok") for x in hist.get("onk_sync_ok", [])):
            for i, nm in enumerate(names):
                if so[i] != ab["obs"][i]:
                    V("async_vs_sync", f"ON key pressed after {scn['split']} instructions: {nm} sync={so[i]} async={ab['obs'][i]} "
                      f"after {scn['boundaries']} instructions, slice {scn['slice']}", field=nm, mode="onk_wake")
                    break
        return viols

    part, again, single = hist["part"], hist["again"], hist["single"]
    n_part = hist["n_part"]
    clocks = [r[2] for r in part["results"]]
    due, events = _model(scn, clocks)
    log = part["log"]
    # (1) exact wake time, never twice
    seen = set()
    for t, i, c in log:
        if (t, i) in seen:
            V("resumed_twice", f"task {t} resumption {i} logged twice", )
        seen.add((t, i))
        want = due.get((t, i))
        if want is None:
            V("unknown_resumption", f"task {t} resumption {i} does not exist in the script")
        elif c < want:
            V("wake_early", f"task {t} resumption {i} ran at cycle {c}, asked for {want}", phase="any")
        elif c > want:
            V("wake_late", f"task {t} resumption {i} ran at cycle {c}, asked for {want}", phase="any", cause="late_cycle")
    # (2) nothing missing after the drain
    missing = [k for k in due if k not in seen and due[k] < NEVER]
    if missing:
        V("wake_late", f"{len(missing)} resumptions never happened, e.g. task {missing[0][0]} #{missing[0][1]} due at "
          f"{due[missing[0]]}", phase="drain", cause="never")
    # (3) coverage after the partition part: a budget that returned MaxCycles has elapsed in
    # full, an event return has elapsed cycles_executed (ASSUMPTIONS)
    ideal = scn["start"]
    covered_log = 0
    stalled = False
    for bi in range(n_part):
        ev, cyc, clk, nlog = part["results"][bi]
        budget = scn["budgets"][bi]
        ideal += budget if ev == -1 else cyc
        covered_log = nlog
        if clk < ideal:
            stalled = True
        if scn["late"] and scn["late"][0] == bi + 1:
            break    # a late task's times are relative to the real clock; stop judging coverage here
    has_events = bool(events)
    if not has_events:
        owed = sorted((c, k) for k, c in due.items() if c < ideal and k[0] < len(scn["tasks"]))
        done = set((t, i) for t, i, _ in log[:covered_log])
        lost = [(c, k) for c, k in owed if k not in done]
        if lost:
            c, k = lost[0]
            V("wake_late", f"after budgets {scn['budgets'][:12]} totalling {ideal - scn['start']} cycles, task {k[0]} "
              f"resumption {k[1]} due at {c} had not run (driver clock {clocks[n_part - 1]})",
              phase="partition", cause="clock_stalled" if stalled else "not_run")
    # (4) clocks never move backwards
    prev = scn["start"]
    for ev, cyc, clk, nlog in part["results"]:
        if clk < prev:
            V("clock_backwards", f"driver clock went from {prev} to {clk}")
        prev = clk
    lastc = -1
    for t, i, c in log:
        if c < lastc:
            V("clock_backwards", f"task log cycle went from {lastc} to {c}")
        lastc = c
    # (5) determinism / partition independence of the order (incl. same-cycle ties)
    if again["log"] != log or [r[0] for r in again["results"]] != [r[0] for r in part["results"]]:
        V("order_nondeterministic", "the same scenario produced a different resumption log / event sequence")
    if single is not None and single["log"] != log:
        V("partition_dependence", f"resumption order under budgets {scn['budgets'][:12]} differs from one big budget: "
          f"{log[:8]} vs {single['log'][:8]}", what="log")
    # (6) events: exactly once, in emission order (same-cycle events compared as emitted by the log order)
    got = [r[0] for r in part["results"] if r[0] != -1]
    order = {(t, i): n for n, (t, i, _) in enumerate(log)}
    exp = [e for _, t, i, e in sorted(events, key=lambda x: order.get((x[1], x[2]), 1 << 30))]
    if got != exp:
        if sorted(got) != sorted(exp):
            if len(got) < len(exp):
                V("event_lost", f"events returned {got}, emitted {exp}")
            else:
                V("event_dup", f"events returned {got}, emitted {exp}")
        else:
            V("event_order", f"events returned {got}, emitted in order {exp}")
    if single is not None:
        got_s = [r[0] for r in single["results"] if r[0] != -1]
        if got_s != got:
            V("partition_dependence", f"event sequence {got} under the partition, {got_s} under one big budget", what="events")
    return viols


def stats(scn: Dict[str, Any], hist: Dict[str, Any]) -> Dict[str, Any]:
    probes: Dict[str, int] = {}
    faults: Dict[str, int] = {}
    if scn["kind"] == "driver":
        due, events = _model(scn, [r[2] for r in hist["part"]["results"]])
        times = sorted(v for v in due.values() if v < NEVER)
        if any(a == b for a, b in zip(times, times[1:])):
            probes["same_cycle_tie"] = 1
        styles = [st[2] if len(st) > 2 else 0 for t in scn["tasks"] for st in t]
        if 1 in styles:
            probes["task_yields_without_sleep"] = 1
        if 2 in styles:
            probes["sleep_built_before_spawn"] = 1
        if 3 in styles:
            probes["display_task_frame"] = 1
        if any(st[0] >= NEVER for t in scn["tasks"] for st in t):
            probes["sleep_for_ever"] = 1
        if scn.get("drain") == U64MAX:
            probes["unbounded_budget"] = 1
        if any(d == 0 for t in scn["tasks"] for d, *_ in t):
            probes["sleep_zero"] = 1
        if 0 in scn["budgets"]:
            probes["budget_zero"] = 1
        mx = max([d for t in scn["tasks"] for d, *_ in t if d < NEVER] or [0])
        if any(b < mx for b in scn["budgets"]):
            probes["budget_lt_sleep"] = 1
        if events:
            probes["event_returned"] = 1
            ec = sorted(c for c, *_ in events)
            if any(a == b for a, b in zip(ec, ec[1:])):
                probes["two_events_same_cycle"] = 1
        if scn["late"]:
            probes["late_spawn"] = 1
        if scn["start"] > (1 << 31):
            probes["start_clock_big"] = 1
        faults = {"budget_split": len(scn["budgets"]), "event_return": len(events)}
        nontrivial = (len(scn["tasks"]) >= 2 or bool(events)) and len(scn["budgets"]) >= 2
        cycles = max(times) - scn["start"] if times else 0
        return {"nontrivial": nontrivial, "sig": digest([scn["tasks"], scn["budgets"], scn["start"], scn["late"]]),
                "faults": faults, "probes": probes, "cycles": cycles,
                "boundaries": sum(len(t) for t in scn["tasks"])}
    s = hist.get("sync_obs") or []
    if scn["slice"] == 1:
        probes["async_slice_1"] = 1
    if s and (s[machine.O_ISR] & 3 or s[machine.O_IRQ] > 0):
        probes["async_timer_fired"] = 1
    if s and s[machine.O_PWR] == 1:
        probes["async_halt"] = 1
    return {"nontrivial": bool(probes.get("async_timer_fired") or probes.get("async_halt")),
            "sig": digest([scn["prog"]["image"], scn["slice"], scn["timer"], scn["boundaries"]]),
            "faults": {"slice_size": 1}, "probes": probes,
            "cycles": s[machine.O_CYC] if s else 0, "boundaries": scn["boundaries"]}


def sample(scn: Dict[str, Any], hist: Dict[str, Any]) -> Dict[str, Any]:
    if scn["kind"] == "driver":
        return {"start": scn["start"], "tasks": scn["tasks"], "budgets": scn["budgets"], "late": scn["late"],
                "log": hist["part"]["log"][:20], "results": hist["part"]["results"][:12]}
    return {"slice": scn["slice"], "boundaries": scn["boundaries"], "timer": scn["timer"],
            "sync": hist["sync_obs"][:22], "async": hist["async"]["obs"][:22]}


def shrink(scn: Dict[str, Any]):
    if scn["kind"] != "driver":
        n = scn["boundaries"]
        for nb in (n // 2, n - 1):
            if 1 <= nb < n:
                c = copy.deepcopy(scn)
                c["boundaries"] = nb
                c["split"] = min(c["split"], nb)
                yield c
        return
    if scn["late"]:
        c = copy.deepcopy(scn)
        c["late"] = None
        yield c
    for ti in range(len(scn["tasks"])):
        if len(scn["tasks"]) > 1:
            c = copy.deepcopy(scn)
            del c["tasks"][ti]
            yield c
    for ti, t in enumerate(scn["tasks"]):
        for si in range(len(t)):
            if len(t) > 1:
                c = copy.deepcopy(scn)
                del c["tasks"][ti][si]
                yield c
            if t[si][1] is not None:
                c = copy.deepcopy(scn)
                c["tasks"][ti][si][1] = None
                yield c
            if t[si][0] in DUR and t[si][0] > 0 and (len(t[si]) < 3 or t[si][2] != 1):
                c = copy.deepcopy(scn)
                c["tasks"][ti][si][0] = DUR[max(0, DUR.index(t[si][0]) - 1)]
                yield c
            if len(t[si]) > 2 and t[si][2] == 2:
                c = copy.deepcopy(scn)
                c["tasks"][ti][si][2] = 0
                yield c
    b = scn["budgets"]
    for i in range(len(b)):
        if len(b) > 1:
            c = copy.deepcopy(scn)
            merged = b[:i] + b[i + 1:]
            c["budgets"] = merged
            yield c
    if scn["start"]:
        c = copy.deepcopy(scn)
        c["start"] = 0
        yield c
    if scn.get("drain", BIG) != BIG:
        c = copy.deepcopy(scn)
        c["drain"] = BIG
        yield c
