"""C14 — keyboard reads show exactly the held keys on strobed columns; events ordered.

Component level: seeded histories over {press, release, write KOL/KOH, scan tick, KIL read,
inject, consume, firmware ISR clear} drive the Python KeyboardMatrix (through its register
front end) and the Rust KeyboardMatrix; each implementation is judged on its own against a
debounce/FIFO reference automaton written from the property statement.  Machine level: the
KEYI clause on both machines (KEYI rises only with events pending and keyboard IRQs on).
"""
from __future__ import annotations

import copy
from typing import Any, Dict, List, Optional

from .. import machine, progen
from ..rng import Rng
from ..rshost import host
from ..runner import Batch, digest

ID = "C14"
TITLE = "Keyboard reads show exactly the held keys on strobed columns; events ordered"
RULE = ("component runs: <=6 keys (one run in eight: a block of 9-12 keys pressed and released as chords) chosen to share rows and columns, both polarities, press/release thresholds 1..6, "
        "repeat delay/interval from {1,2,6,24}x{1,2,6}, histories of 20-300 ops incl. chatter bursts, strobe changes "
        "mid-debounce and >=9 events without a consumer; non-trivial = at least one debounced press and one KIL read; "
        "distinct = distinct (config, history) hash. machine runs: firmware with KIL reads/strobes, key events, "
        "keyboard IRQ enabled or disabled; non-trivial = at least one key event reached the FIFO")
SCHEDULE_MEASURE = "distinct (configuration, op history) hashes"
COMPONENTS = {
    "real": ["pce500/keyboard_matrix.py KeyboardMatrix", "pce500/keyboard_handler.py register front end",
             "sc62015/core/src/keyboard.rs KeyboardMatrix::{press_matrix_code,release_matrix_code,handle_write,"
             "handle_read,scan_tick,inject_matrix_event,write_fifo_to_memory,consume_pending_events,snapshot_state,load_snapshot_state}",
             "machine level: PCE500Emulator._scan_keyboard_per_instruction, CoreRuntime tick_timers_with_keyboard"],
    "stub": ["scan ticks are issued by the simulator (the timer that drives them is C13's)", "perfetto compiled out"],
}
ASSUMPTIONS = [
    "a KIL read through the register front end scans once first (both implementations), and in Rust drains the FIFO: "
    "events generated or consumed by a Rust read are not observable and reset the per-key order automaton",
    "order of events generated within one scan tick is implementation-defined (compared as multisets)",
    "repeat interval 0 and the key-strobe-disable bit are not judged; repeat delay 0 is read as 'first repeat on the scan tick after the press event'",
]
PROBES = ["debounced_press", "release_event", "repeat_event", "fifo_full", "chatter_suppressed", "strobe_change_mid_debounce",
          "shared_row_keys", "kil_read_pending", "active_low", "inject", "keyi_raised", "keyi_masked", "wide_strobe_store"]

CAP = 8


def batches(tier: str) -> List[Batch]:
    if tier == "quick":
        return [Batch("py", "py-kbd", 4000, 100), Batch("rs", "rs-kbd", 12000, 200),
                Batch("rs-machine", "rs-machine", 3000, 100), Batch("py-machine", "py-machine", 320, 8)]
    return [Batch("py", "py-kbd", 200000, 300), Batch("rs", "rs-kbd", 600000, 500),
            Batch("rs-machine", "rs-machine", 100000, 300), Batch("py-machine", "py-machine", 10000, 16)]


def _pick_keys(r: Rng) -> List[int]:
    """<= 6 keys sharing rows and columns (so ghosting between them would be visible)."""
    cols = r.sample(list(range(11)), 3)
    rows = r.sample(list(range(8)), 3)
    keys = []
    for c in cols:
        for rw in rows:
            code = (c << 3) | rw
            if machine.key_name(code):
                keys.append(code)
    picked = r.sample(keys, min(len(keys), r.range(2, 6)))
    rb = r.child("big")
    if rb.chance(1, 8):
        # a block of 9-12 keys for chords: more events in one scan than the queue holds
        cols = rb.sample(list(range(10)), 4)
        rows = rb.sample(list(range(8)), 3)
        picked = [(c << 3) | rw for c in cols for rw in rows if machine.key_name((c << 3) | rw)]
    return picked


def generate(batch: str, r: Rng, idx: int, tier: str) -> Dict[str, Any]:
    if batch in ("rs-machine", "py-machine"):
        feat = {"timers": True, "keys": True, "kil_reads": True, "onk": False, "imr_writes": r.chance(1, 2),
                "isr_writes": r.chance(1, 2), "wait": r.chance(1, 2), "halt": r.chance(1, 3), "off": False, "ir": False,
                "calls": False, "far_calls": False, "nested": False, "lcd": False, "wide_strobe": True}
        n = r.choice([60, 120, 240] if batch == "rs-machine" else [60, 120])
        scn = machine.gen_machine_scenario(r, batch, feat, boundaries=n, faulty=True)
        scn["kb"]["kb_irq"] = r.chance(2, 3)
        scn["final_state"] = True
        if batch == "rs-machine":
            scn["timer"] = {"enabled": True, "mti": r.range(1, 6), "sti": r.choice([0, 7, 50])}   # scans happen on MTI
        scn["kind"] = "machine"
        return scn
    ex = "py-kbd" if batch == "py" else "rs-kbd"
    keys = _pick_keys(r.child("keys"))
    cfg = {"press": r.choice([1, 1, 2, 3, 6]), "release": r.choice([1, 2, 3, 6]),
           "repeat_delay": r.choice([1, 2, 6, 24]), "repeat_interval": r.choice([1, 2, 6]),
           "active_high": r.chance(3, 4)}
    if r.child("delay0").chance(1, 8):
        # "repeat at once": with a delay of zero the first repeat comes on the scan tick after the press event (what both
        # implementations do); a key that then never repeats, or repeats at another cadence, breaks the statement
        cfg["repeat_delay"] = 0
    if ex == "rs-kbd" and r.child("raw").chance(1, 6):
        cfg["raw_kil"] = True      # host-side option of the Rust matrix: KIL from the physical key state
    cols = sorted(set(k >> 3 for k in keys))
    all_mask = 0
    for c in cols:
        all_mask |= 1 << c

    def strobe_ops(mask: int) -> List[list]:
        lo, hi = mask & 0xFF, (mask >> 8) & 0x0F
        if not cfg["active_high"]:
            lo, hi = (~lo) & 0xFF, (~hi) & 0x0F
        return [["kol", lo], ["koh", hi]]

    ops: List[list] = []
    ops += strobe_ops(all_mask if r.chance(3, 4) else r.below(1 << 11))
    n = r.choice([20, 40, 80, 150, 300])
    held: set = set()
    ro = r.child("ops")
    while len(ops) < n:
        kind = ro.weighted([("tick", 30), ("press", 10), ("release", 8), ("read", 8), ("strobe", 4), ("chatter", 3),
                            ("hold_run", 3), ("consume", 2), ("inject", 1), ("clrisr", 2), ("kbirq", 1), ("restart", 1),
                            ("chord", 3 if len(keys) >= 8 else 0)])
        if kind == "tick":
            ops.append(["tick"])
        elif kind == "press":
            k = ro.choice(keys)
            ops.append(["press", k])
            held.add(k)
        elif kind == "release":
            k = ro.choice(sorted(held) or keys)
            ops.append(["release", k])
            held.discard(k)
        elif kind == "read":
            ops.append(["read"])
        elif kind == "strobe":
            m = ro.choice([all_mask, all_mask, 0, 1 << ro.choice(cols), ro.below(1 << 11)])
            ops += strobe_ops(m)
        elif kind == "chatter":
            k = ro.choice(keys)
            for _ in range(ro.range(2, 4)):
                ops.append(["press", k])
                for _ in range(ro.range(0, max(0, cfg["press"] - 1))):
                    ops.append(["tick"])
                ops.append(["release", k])
            held.discard(k)
        elif kind == "hold_run":
            k = ro.choice(keys)
            ops.append(["press", k])
            held.add(k)
            for _ in range(ro.range(cfg["press"], cfg["press"] + cfg["repeat_delay"] + 3 * cfg["repeat_interval"] + 2)):
                ops.append(["tick"])
        elif kind == "consume":
            ops.append(["consume"])
        elif kind == "chord":
            # every key of the block goes down (or up) between two scans
            down = ro.chance(1, 2) or not held
            for k in keys:
                if down and k not in held:
                    ops.append(["press", k])
                    held.add(k)
                elif not down and k in held:
                    ops.append(["release", k])
                    held.discard(k)
            for _ in range(ro.range(1, max(cfg["press"], cfg["release"]) + 1)):
                ops.append(["tick"])
        elif kind == "restart":
            if ro.chance(1, 2):
                ops.append(["restart"])       # snapshot -> JSON -> a fresh matrix: nothing may change
            else:
                # ... or back into the same matrix after it lived on with other strobes and a few scans
                ops.append(["restart", "used", ro.choice([0x00, 0xFF, ro.below(256)]), ro.choice([0x0, 0x7, ro.below(16)]),
                            ro.range(0, 2)])
        elif kind == "inject":
            ops.append(["inject", ro.choice(keys), ro.chance(1, 3)])
        elif kind == "clrisr":
            ops.append(["clrisr"])
        else:
            ops.append(["kbirq", ro.chance(1, 2)])
    return {"kind": "kbd", "exec": ex, "keys": keys, "cfg": cfg, "kb_irq": True, "ops": ops}


# ----------------------------------------------------------------------------------------
# executors


def _run_py(scn: Dict[str, Any]) -> List[list]:
    from pce500.keyboard_handler import PCE500KeyboardHandler
    cfg = scn["cfg"]
    h = PCE500KeyboardHandler(None, columns_active_high=bool(cfg["active_high"]))
    mx = h._matrix
    mx.press_threshold = max(1, cfg["press"])
    mx.release_threshold = max(1, cfg["release"])
    mx.repeat_delay = cfg["repeat_delay"]
    mx.repeat_interval = cfg["repeat_interval"]
    names = [machine.key_name(k) for k in scn["keys"]]
    out: List[list] = []

    def state():
        keys = []
        for nm in names:
            st = mx._key_states[nm]
            keys.append([st.pressed, st.debounced, st.press_ticks, st.release_ticks, st.repeat_ticks])
        return {"fifo": list(mx.fifo_snapshot()), "isr": 0, "kil_latch": mx._kil_latch, "keys": keys}

    for op in scn["ops"]:
        k = op[0]
        ret = None
        if k == "press":
            h.press_key(machine.key_name(op[1]))
        elif k == "release":
            h.release_key(machine.key_name(op[1]))
        elif k == "kol":
            h.handle_register_write(0xF0, op[1])
        elif k == "koh":
            h.handle_register_write(0xF1, op[1])
        elif k == "tick":
            ev = h.scan_tick()
            ret = [e.to_byte() for e in ev]
        elif k == "read":
            ret = h.handle_register_read(0xF2)
        elif k == "inject":
            ret = 1 if mx.inject_event(machine.key_name(op[1]), release=bool(op[2])) else 0
        elif k == "consume":
            h.consume_pending_events()
        elif k == "restart":
            import json as _json
            saved = _json.loads(_json.dumps(h.snapshot_state()))
            if len(op) > 1 and op[1] == "used":
                h.handle_register_write(0xF0, op[2])
                h.handle_register_write(0xF1, op[3])
                for _ in range(op[4]):
                    h.scan_tick()
            else:
                h = PCE500KeyboardHandler(None, columns_active_high=bool(cfg["active_high"]))
            h.load_state(saved)
            mx = h._matrix
        out.append([ret, state()])
    return out


def execute(scn: Dict[str, Any]) -> Dict[str, Any]:
    if scn["kind"] == "machine":
        return machine.run_machine(scn)
    if scn["exec"] == "py-kbd":
        return {"trace": _run_py(scn)}
    out = host().call([["k.new", 0, scn["cfg"]], ["k.script", 0, scn["keys"], bool(scn["kb_irq"]), scn["ops"], bool(scn["cfg"].get("raw_kil"))]])
    return {"trace": out[0]}


# ----------------------------------------------------------------------------------------
# reference automaton


class _Key:
    __slots__ = ("code", "col", "row", "held", "stable", "deb", "rel", "rep", "seq", "since_rel", "injected")

    def __init__(self, code):
        self.code, self.col, self.row = code, code >> 3, code & 7
        self.held = False
        self.stable = 0
        self.deb = False
        self.rel = 0
        self.rep = 0
        self.seq = "idle"        # order automaton: idle | pressed | unknown
        self.since_rel = None    # scan ticks since physical release while still debounced
        self.injected = False


def _strobed(cfg, kol, koh) -> set:
    cols = set()
    for c in range(8):
        bit = (kol >> c) & 1
        if bit == (1 if cfg["active_high"] else 0):
            cols.add(c)
    for c in range(8):
        bit = (koh >> c) & 1
        if bit == (1 if cfg["active_high"] else 0):
            cols.add(c + 8)
    return cols


def _check_kbd(scn: Dict[str, Any], hist: Dict[str, Any]) -> List[dict]:
    ex = scn["exec"]
    cfg = scn["cfg"]
    viols: List[dict] = []

    def V(cls, i, msg, **where):
        viols.append({"cls": cls, "executor": ex, "where": where, "msg": f"op {i} {scn['ops'][i]}: {msg}", "at": i})

    keys = {k: _Key(k) for k in scn["keys"]}
    kol = 0x00 if cfg["active_high"] or ex == "rs-kbd" else 0xFF
    koh = 0x00 if cfg["active_high"] or ex == "rs-kbd" else 0x0F
    if ex == "py-kbd" and not cfg["active_high"]:
        kol, koh = 0xFF, 0x0F
    kb_irq = bool(scn["kb_irq"])
    fifo_prev: List[int] = []
    trace = hist["trace"]
    hist["_probes"] = probes = {}

    def probe(n):
        probes[n] = probes.get(n, 0) + 1

    def model_tick() -> List[int]:
        """Advance the automaton one scan tick; return the events it generates."""
        cols = _strobed(cfg, kol, koh if ex == "rs-kbd" else (koh & 0x0F))
        ev = []
        for k in keys.values():
            active = k.held and k.col in cols
            if active:
                if not k.deb:
                    k.stable += 1
                    if k.stable >= cfg["press"]:
                        k.deb = True
                        k.rel = 0
                        k.rep = cfg["repeat_delay"]
                        ev.append(k.code)
                else:
                    k.rel = 0
                    k.rep = max(0, k.rep - 1)
                    if k.rep <= 0:
                        k.rep = cfg["repeat_interval"]
                        ev.append(k.code)
            else:
                k.stable = 0
                if k.deb:
                    k.rel += 1
                    if k.rel >= cfg["release"]:
                        k.deb = False
                        k.rel = 0
                        ev.append(k.code | 0x80)
        return ev

    def resync(i, st):
        for k, s in zip(keys.values(), st["keys"]):
            if s is None:
                continue
            k.deb = bool(s[1])
            k.stable = s[2] if not k.deb else 0
            k.rel = s[3]
            k.rep = s[4]

    for i, (op, rec) in enumerate(zip(scn["ops"], trace)):
        ret, st = rec
        kind = op[0]
        fifo = st["fifo"]
        isr_before = None
        new_events: Optional[List[int]] = None
        if kind == "press":
            # physically a key cannot be pressed twice: "press" of a held key changes nothing
            k = keys[op[1]]
            if not k.held:
                k.held = True
                k.stable = 0
                k.rel = 0      # debounce counters restart on every physical edge
                k.rep = cfg["repeat_delay"]   # ... and so does the repeat delay
        elif kind == "release":
            k = keys[op[1]]
            if k.held:
                k.rel = 0
                if not k.deb and k.stable > 0:
                    probe("chatter_suppressed")
            k.held = False
        elif kind == "kol":
            if any(0 < k.stable < cfg["press"] and not k.deb for k in keys.values()):
                probe("strobe_change_mid_debounce")
            kol = op[1] & 0xFF
        elif kind == "koh":
            koh = op[1] & 0xFF
        elif kind == "kbirq":
            kb_irq = bool(op[1])
        elif kind == "consume":
            fifo_prev = []
        elif kind == "inject":
            k = keys[op[1]]
            probe("inject")
            if op[2]:
                k.held, k.deb, k.stable, k.rel = False, False, 0, 0
                k.seq = "idle"
            else:
                k.held, k.deb, k.stable, k.rel, k.rep = True, True, cfg["press"], 0, cfg["repeat_delay"]
                k.seq = "pressed"
            new_events = [op[1] | (0x80 if op[2] else 0)]
        if kind in ("tick", "read"):
            # adapter: a KIL read through the register front end scans once first
            cols = _strobed(cfg, kol, koh if ex == "rs-kbd" else (koh & 0x0F))
            pre_deb = {c: k.deb for c, k in keys.items()}
            exp = model_tick()
            if kind == "tick":
                got = list(ret) if isinstance(ret, list) else None
                if got is None:
                    n = int(ret or 0)
                    got = fifo[len(fifo) - n:] if 0 < n <= len(fifo) else ([] if n == 0 else None)
                    if got is None and n == len(exp) and all(fifo.count(x) <= exp.count(x) for x in set(fifo)):
                        # more events in one scan than the queue holds: the count and the survivors are all there
                        # is to see (the queue policy clause below judges the survivors)
                        got = list(exp)
                if got is None or sorted(got) != sorted(exp):
                    gl = got or []
                    # classify the first discrepancy
                    miss = [e for e in exp if e not in gl]
                    extra = [e for e in gl if e not in exp]
                    e0 = (miss or extra or [0])[0]
                    code = e0 & 0x7F
                    k = keys.get(code)
                    if miss and (e0 & 0x80):
                        V("release_missing", i, f"key {code:#04x} released/unstrobed for {cfg['release']} scan ticks after a "
                          f"debounced press but no release event was generated (events {gl}, expected {exp})",
                          sub="release_missing")
                    elif extra and (e0 & 0x80):
                        V("event_order", i, f"release event for key {code:#04x} that the automaton does not consider pressed "
                          f"(events {gl}, expected {exp})", sub="release_without_press")
                    elif miss:
                        sub = "repeat_cadence" if (k is not None and pre_deb.get(code)) else "press_missing"
                        V(sub if sub == "repeat_cadence" else "event_order", i,
                          f"expected event {e0:#04x} not generated (events {gl}, expected {exp})", sub=sub)
                    else:
                        sub = "repeat_cadence" if (k is not None and pre_deb.get(code)) else "double_press"
                        V(sub if sub == "repeat_cadence" else "event_order", i,
                          f"unexpected event {e0:#04x} (events {gl}, expected {exp})", sub=sub)
                    resync(i, st)
                    new_events = gl
                else:
                    new_events = got
                for e in new_events or []:
                    k = keys.get(e & 0x7F)
                    if k is None:
                        continue
                    if e & 0x80:
                        probe("release_event")
                        k.seq = "idle"
                    else:
                        probe("repeat_event" if pre_deb.get(k.code) else "debounced_press")
                        k.seq = "pressed"
            else:
                # KIL read: value must show no ghost rows and must show every key that has been held and strobed
                # for the debounce interval
                val = int(ret if ret is not None else 0)
                allowed = 0
                required = 0
                for k in keys.values():
                    if k.col not in cols:
                        continue
                    if k.held or k.deb or pre_deb.get(k.code):
                        allowed |= 1 << k.row
                    if k.held and k.deb:
                        required |= 1 << k.row
                    if k.held and not k.deb and k.stable + 1 >= cfg["press"]:
                        probe("kil_read_pending")
                if val & ~allowed & 0xFF:
                    V("kil_ghost", i, f"KIL={val:#04x} shows rows {val & ~allowed & 0xFF:#04x} with no held or just-released key "
                      f"on a strobed column (strobed {sorted(cols)})")
                if required & ~val:
                    V("kil_missing", i, f"KIL={val:#04x} does not show rows {required & ~val:#04x} of keys held and strobed "
                      f"for the debounce interval")
                if ex == "rs-kbd":
                    # the Rust read drains the FIFO; events of its internal scan are unobservable
                    fifo_prev = []
                    new_events = []
                    for k in keys.values():
                        k.seq = "unknown"
                    resync(i, st)
                else:
                    new_events = exp   # Python's read scans and enqueues like a tick
        # ---- FIFO policy: bounded, oldest dropped, order kept
        if len(fifo) > CAP:
            V("fifo_overrun", i, f"FIFO holds {len(fifo)} entries")
        if new_events is not None and kind != "consume":
            cand_len = len(fifo_prev) + len(new_events)
            n = len(fifo)
            ok_len = (n == cand_len) if cand_len <= CAP - 1 else (CAP - 1 <= n <= CAP)
            m = min(n, len(new_events))
            tail, head = fifo[n - m:], fifo[:n - m]
            # events generated within one tick may be enqueued in any order; older entries keep theirs
            tail_ok = all(tail.count(x) <= list(new_events).count(x) for x in set(tail)) and \
                (m < len(new_events) or sorted(tail) == sorted(new_events))
            head_ok = head == (fifo_prev[len(fifo_prev) - len(head):] if head else [])
            if not (ok_len and tail_ok and head_ok):
                V("fifo_drop_policy", i, f"FIFO {fifo} is not the newest suffix of {fifo_prev} + {list(new_events)} "
                  f"(capacity {CAP})")
            if n >= CAP - 1 and cand_len > n:
                probe("fifo_full")
        elif kind not in ("consume", "read", "tick", "inject") and fifo != fifo_prev:
            V("fifo_drop_policy", i, f"FIFO changed from {fifo_prev} to {fifo} on an operation that generates no event")
        fifo_prev = list(fifo)
        # ---- KEYI (Rust component keeps the ISR byte): raised only with events pending and IRQs enabled
        if ex == "rs-kbd" and kind in ("tick", "inject"):
            prev_isr = trace[i - 1][1]["isr"] if i else 0
            if kind != "clrisr" and (st["isr"] & 4) and not (prev_isr & 4):
                probe("keyi_raised")
                if not kb_irq or len(fifo) == 0:
                    V("keyi_spurious", i, f"KEYI raised with kb_irq={kb_irq} and FIFO {fifo}")
            if (not kb_irq) and new_events:
                probe("keyi_masked")
    return viols


def _check_machine(scn: Dict[str, Any], hist: Dict[str, Any]) -> List[dict]:
    """KEYI clause on the machines: ISR bit 2 may rise only if keyboard interrupts are enabled and
    events are pending at that instant (Python: queue length sampled by the memory tap when the bit
    rises; Rust: queue length after the step, or before it when the step itself was a KIL read).
    FIFO clause: the queue is emptied only by a consumer (firmware KIL read / KEYI acknowledge)."""
    viols: List[dict] = []
    ex = scn["exec"]
    obs = hist["obs"]
    pre_map = hist.get("preobs", {})
    ins = scn["prog"]["ins"]
    handler = scn["prog"]["handler"]
    kb_irq = bool(scn["kb"].get("kb_irq", True))
    hist["_probes"] = probes = {}
    for k in range(len(obs) - 1):
        pre = pre_map.get(str(k), obs[k])
        post = obs[k + 1]
        extra = post[machine.O_SHADOW] if len(post) > machine.O_SHADOW else None
        delivered = post[machine.O_IRQ] != pre[machine.O_IRQ]
        # tag of the instruction that executed in this step
        if ex == "py-machine" and delivered:
            tag = "HANDLER"
        else:
            tag = (ins.get(str(pre[machine.O_PC])) or [0, ""])[1]
        consumer = tag in ("MV_A_KIL", "AND_ISR", "MV_ISR", "H:clear")
        if post[machine.O_FIFO] < pre[machine.O_FIFO] and not consumer and post[machine.O_INS] != pre[machine.O_INS]:
            viols.append({"cls": "queue_dropped", "executor": ex, "where": {},
                          "msg": f"boundary {k}: key event queue went from {pre[machine.O_FIFO]} to "
                                 f"{post[machine.O_FIFO]} entries although the executed instruction ({tag}) neither "
                                 f"reads KIL nor acknowledges KEYI", "at": k})
        rose = (post[machine.O_ISR] & 4) and not (pre[machine.O_ISR] & 4)
        if not rose:
            continue
        if tag in ("OR_ISR", "MV_ISR"):
            continue       # firmware wrote the bit itself
        probes["keyi_raised"] = probes.get("keyi_raised", 0) + 1
        if ex == "py-machine" and isinstance(extra, dict) and extra.get("keyi_fifo"):
            pending = any(n != 0 for n in extra["keyi_fifo"])
        else:
            pending = post[machine.O_FIFO] > 0 or pre[machine.O_FIFO] > 0
        if not kb_irq:
            viols.append({"cls": "keyi_spurious", "executor": ex, "where": {"why": "irq_disabled"},
                          "msg": f"boundary {k}: KEYI raised although keyboard interrupts are disabled", "at": k})
        elif not pending:
            viols.append({"cls": "keyi_spurious", "executor": ex, "where": {"why": "no_event_pending"},
                          "msg": f"boundary {k}: KEYI raised with an empty event queue (instruction {tag})", "at": k})
    # the strobe latch the matrix scans with is the strobe register the firmware wrote (however it was written:
    # as a byte, or as part of a wider store that starts below KOL)
    fin = hist.get("final")
    # (Rust machine only: the Python machine keeps KOL/KOH inside the keyboard handler, not in the memory array)
    if ex == "rs-machine" and fin and fin.get("kb") and fin.get("imem") and not hist.get("err"):
        kol, koh = fin["kb"].get("kol"), fin["kb"].get("koh")
        mkol, mkoh = fin["imem"][0xF0], fin["imem"][0xF1]
        if any(t[1] == "MVW_AMC_KOL" for t in ins.values()):
            probes["wide_strobe_store"] = 1
        if kol is not None and (kol & 0xFF) != mkol:
            viols.append({"cls": "kil_missing", "executor": ex, "where": {"why": "strobe_latch_stale", "reg": "KOL"},
                          "msg": f"at the end the matrix scans with KOL={kol:#04x} but the register holds {mkol:#04x}", "at": len(obs) - 1})
        elif koh is not None and (koh & 0x07) != (mkoh & 0x07):
            viols.append({"cls": "kil_missing", "executor": ex, "where": {"why": "strobe_latch_stale", "reg": "KOH"},
                          "msg": f"at the end the matrix scans with KOH={koh:#04x} but the register holds {mkoh:#04x}", "at": len(obs) - 1})
    return viols


def check(scn: Dict[str, Any], hist: Dict[str, Any]) -> List[Dict[str, Any]]:
    if scn["kind"] == "machine":
        v = _check_machine(scn, hist)
        err = hist.get("err")
        if err and err.get("msg") != "left_code":
            v.append({"cls": "step_error", "executor": scn["exec"], "where": {}, "msg": str(err), "at": err.get("at")})
        return v
    return _check_kbd(scn, hist)


def stats(scn: Dict[str, Any], hist: Dict[str, Any]) -> Dict[str, Any]:
    probes = dict(hist.get("_probes") or {})
    if scn["kind"] == "machine":
        obs = hist["obs"]
        reached = any(o[machine.O_FIFO] > 0 for o in obs)
        faults: Dict[str, int] = {}
        for op in scn["ops"]:
            faults[op[1]] = faults.get(op[1], 0) + 1
        return {"nontrivial": reached, "sig": digest([scn["prog"]["image"], scn["ops"], scn["kb"]]), "faults": faults,
                "probes": probes, "cycles": obs[-1][machine.O_CYC] if obs else 0, "boundaries": len(obs) - 1}
    kinds = [o[0] for o in scn["ops"]]
    rows = [k & 7 for k in scn["keys"]]
    if len(set(rows)) < len(rows):
        probes["shared_row_keys"] = 1
    if not scn["cfg"]["active_high"]:
        probes["active_low"] = 1
    faults = {"key_press": kinds.count("press"), "key_release": kinds.count("release"), "strobe_change": kinds.count("kol"),
              "inject_event": kinds.count("inject"), "consume": kinds.count("consume"),
              "snapshot_restore": kinds.count("restart")}
    nontrivial = probes.get("debounced_press", 0) > 0 and "read" in kinds
    return {"nontrivial": nontrivial, "sig": digest([scn["cfg"], scn["keys"], scn["ops"]]), "faults": faults,
            "probes": probes, "cycles": kinds.count("tick"), "boundaries": len(kinds)}


def sample(scn: Dict[str, Any], hist: Dict[str, Any]) -> Dict[str, Any]:
    if scn["kind"] == "machine":
        return {"executor": scn["exec"], "kb": scn["kb"], "ops": scn["ops"][:10],
                "history_abridged": [[o[machine.O_PC], o[machine.O_ISR], o[machine.O_FIFO]] for o in hist["obs"][:20]]}
    return {"executor": scn["exec"], "cfg": scn["cfg"], "keys": scn["keys"], "ops": scn["ops"][:25],
            "trace": [[r[0], r[1]["fifo"]] for r in hist["trace"][:25]]}


def shrink(scn: Dict[str, Any]):
    if scn["kind"] == "machine":
        from . import c12
        yield from c12.shrink(scn)
        return
    ops = scn["ops"]
    n = len(ops)
    for cut in (n // 2, (3 * n) // 4, n - 1):
        if 1 <= cut < n:
            c = copy.deepcopy(scn)
            c["ops"] = ops[:cut]
            yield c
    chunk = max(1, n // 4)
    while chunk >= 1:
        for i in range(0, n, chunk):
            c = copy.deepcopy(scn)
            c["ops"] = ops[:i] + ops[i + chunk:]
            if c["ops"]:
                yield c
        if chunk == 1:
            break
        chunk //= 2
    for key in ("press", "release", "repeat_delay", "repeat_interval"):
        if scn["cfg"][key] > 1:
            c = copy.deepcopy(scn)
            c["cfg"][key] = 1
            yield c
