"""C06 — the Rust LLAMA core and the Python core agree on every instruction.

Two replicas (Python Emulator, Rust LlamaExecutor) over identical flat buses are driven in
lockstep by one driver: the same generated program, compared after *every* instruction,
with faults both replicas receive identically — hidden-state scrambles and mid-run state
transplants (the architectural state of the run so far imposed on fresh instances, a
fail-over) — after which lockstep must continue.
"""
from __future__ import annotations

import copy
from typing import Any, Dict, List

from .. import core
from ..rng import Rng
from ..rshost import host
from ..runner import Batch, digest

ID = "C06"
TITLE = "The Rust LLAMA core and the Python core agree on every instruction"
RULE = ("one run = a program of 10-60 valid instructions drawn from the repository's opcode table (optional PRE prefix, "
        "operand bytes biased to 00/FF/internal-register offsets, near jumps re-targeted into the program) x a seeded "
        "architectural state (pointers steered into a data region, BP/PX/PY, I in 1..N) x up to 120 lockstep steps with "
        "hidden-state scrambles and state transplants; non-trivial = at least 5 lockstep steps and one memory write; "
        "distinct = distinct (program, state) hash; coverage cells (opcode, prefix class) are counted in extra")
SCHEDULE_MEASURE = "distinct (program, initial state, fault placement) hashes; (opcode, prefix?) cells executed"
COMPONENTS = {
    "real": ["sc62015/pysc62015/emulator.py Emulator.execute_instruction + instr/* lifting",
             "sc62015/core/src/llama/{eval,opcodes,state,dispatch}.rs LlamaExecutor::execute"],
    "stub": ["binja_test_mocks LLIL evaluator", "flat bus with identical dumb semantics on both sides (written in "
             "/verif/sim/core.py and /verif/rust/simhost)", "RESET and WAIT are not generated (machine-level properties)"],
}
ASSUMPTIONS = ["Python has one low-power flag: HALT and OFF compare as 'not running'", "TEMP registers and raw F bits 2-7 "
               "are excluded, as in the project's own tools/llama_parity_sweep.py"]
PROBES = ["prefix", "block_instr", "call_ret", "branch_taken_back", "lowpower", "scramble", "transplant", "imem_write",
          "ext_write", "ended_at_reject"]
BLOCK_LIMIT = 0x400     # block instructions with more iterations than this end a run unjudged (cost bound)
FIELDS = ["pc", "opcode", "length", "BA", "I", "X", "Y", "U", "S", "PC", "FC", "FZ", "power", "writes", "error"]


def batches(tier: str) -> List[Batch]:
    # lock: all opcodes, hidden-state scrambles and state transplants; lock-clean: the same without faults;
    # lock-tail: programs drawn only from opcodes with no recorded divergence, so that runs keep lockstep for
    # their whole length and the faults land in long histories
    if tier == "quick":
        return [Batch("lock", "py+rs-core", 12000, 100), Batch("lock-clean", "py+rs-core", 4000, 100, faulty=False),
                Batch("lock-tail", "py+rs-core", 8000, 100)]
    return [Batch("lock", "py+rs-core", 300000, 200), Batch("lock-clean", "py+rs-core", 100000, 200, faulty=False),
            Batch("lock-tail", "py+rs-core", 200000, 200)]


_DIVERGENT = None


def _divergent_opcodes():
    """Opcodes named by the recorded C06 findings (read from the committed file: generation is a pure
    function of the seed and that file)."""
    global _DIVERGENT
    if _DIVERGENT is None:
        import json
        from ..runner import FINDINGS_FILE
        ops = set()
        try:
            for f in json.loads(FINDINGS_FILE.read_text()).get("findings", []):
                if f.get("property") == "C06" and f.get("status") == "known":
                    for o in f.get("where", {}).get("opcode", []) or []:
                        ops.add(int(o, 16))
        except Exception:
            pass
        _DIVERGENT = frozenset(ops)
    return _DIVERGENT


def generate(batch: str, r: Rng, idx: int, tier: str) -> Dict[str, Any]:
    n = r.choice([10, 20, 40, 60])
    # one run in eight places the program across the end of a 64 KiB page (page-local jumps and calls there take
    # their page from the instruction's own address)
    base = 0x0FF90 + 8 * r.child("base").below(12) if r.child("base?").chance(1, 8) else core.CODE_LO
    code, starts = core.gen_program(r.child("prog"), n, canon=True, base=base,
                                    avoid=_divergent_opcodes() if batch == "lock-tail" else ())
    state = core.gen_state(r.child("state"))
    if r.chance(1, 4):
        # decimal data: every byte of the internal memory and of the data region is two BCD digits (BP/PX/PY
        # keep their values), so that DADL/DSBL/DSLL/DSRL are compared on the operands they are meant for
        def bcd(b):
            return (((b >> 4) % 10) << 4) | ((b & 15) % 10)
        state["imem"] = [b if 0xEC <= i <= 0xEE else bcd(b) for i, b in enumerate(state["imem"])]
        state["data"] = [bcd(b) for b in state["data"]]
        state["regs"]["BA"] = (bcd(state["regs"]["BA"] >> 8) << 8) | bcd(state["regs"]["BA"] & 0xFF)
    steps = r.choice([20, 60, 120])
    faults: List[list] = []
    if batch in ("lock", "lock-tail"):
        rf = r.child("faults")
        for _ in range(rf.range(0, 3)):
            at = rf.range(1, steps - 1)
            if rf.chance(2, 3):
                faults.append([at, "scramble", {"temps": [rf.below(1 << 24) for _ in range(14)],
                                                 "call_sub_level": rf.below(8), "pages": [rf.below(16) << 16 for _ in range(rf.below(3))],
                                                 "perf": rf.below(1 << 20)}])
            else:
                faults.append([at, "transplant"])
        faults.sort(key=lambda f: f[0])
    state["regs"]["PC"] = base
    scn = {"kind": "lockstep", "exec": "py+rs-core", "code": code, "starts": starts, "state": state, "steps": steps,
           "faults": faults}
    if base != core.CODE_LO:
        scn["base"] = base
    return scn


def _py_apply_fault(emu, bus, f, scn, cum_writes):
    from sc62015.pysc62015.emulator import RegisterName as R
    if f[1] == "scramble":
        for i, v in enumerate(f[2]["temps"]):
            emu.regs.set(getattr(R, f"TEMP{i}"), v)
        emu.regs.call_sub_level = f[2]["call_sub_level"]
        return emu, bus
    # transplant: fresh emulator, image + cumulative writes + architectural registers
    regs = {n: emu.regs.get(getattr(R, n)) for n in ("BA", "I", "X", "Y", "U", "S", "F", "PC")}
    halted = emu.state.halted
    emu2, bus2 = core.new_py_core(scn)
    for a, v in cum_writes.items():
        bus2.load(a, [v])
    for n, v in regs.items():
        emu2.regs.set(getattr(R, n), v)
    emu2.state.halted = halted
    return emu2, bus2


def execute(scn: Dict[str, Any]) -> Dict[str, Any]:
    lo = scn.get("base", core.CODE_LO)
    hi = lo + (core.CODE_HI - core.CODE_LO)
    # ---- Python replica, segment by segment
    emu, bus = core.new_py_core(scn)
    py: List[list] = []
    py_end = None
    cum: Dict[int, int] = {}
    done = 0
    segs: List[int] = []
    fi = 0
    faults = scn["faults"]
    while done < scn["steps"]:
        nxt = faults[fi][0] if fi < len(faults) else scn["steps"]
        seg = max(0, min(nxt, scn["steps"]) - done)
        recs = core.py_run(emu, bus, seg, lo=lo, hi=hi, stop_at=core.EXCLUDED, block_limit=BLOCK_LIMIT, features=True) if seg else []
        for rec in recs:
            for a, v in rec[13]:
                cum[a] = v
        py.extend(recs)
        segs.append(len(recs))
        done += seg
        if len(recs) < seg:
            from sc62015.pysc62015.emulator import RegisterName as R
            pc = emu.regs.get(R.PC) & 0xFFFFF
            f0 = bus.rd(pc)
            first = bus.rd(pc + 1) if f0 in core.PRES else f0
            py_end = {"pc": pc, "first": first, "halted": bool(emu.state.halted),
                      "long_block": bool(first in core.BLOCK_OPS and emu.regs.get(R.I) > BLOCK_LIMIT)}
            break
        if fi < len(faults):
            emu, bus = _py_apply_fault(emu, bus, faults[fi], scn, cum)
            fi += 1
    # ---- Rust replica: the same segments; a transplant needs the state reached so far, so each
    # segment is one request
    rs: List[list] = []
    ops = core.rs_setup(scn, 0)
    slot = 0
    cum_rs: Dict[int, int] = {}
    done = 0
    fi = 0
    pending: List[list] = ops
    first = True
    while done < scn["steps"]:
        nxt = faults[fi][0] if fi < len(faults) else scn["steps"]
        seg = max(0, min(nxt, scn["steps"]) - done)
        pending.append(["c.run", slot, seg, lo, hi])
        out = host().call(pending) if first else host().call_keep(pending)
        first = False
        recs = out[-1]
        for rec in recs:
            for a, v in rec[13]:
                cum_rs[a] = v
        rs.extend(recs)
        done += seg
        pending = []
        if len(recs) < seg:
            break
        if fi < len(faults):
            f = faults[fi]
            if f[1] == "scramble":
                pending.append(["c.hidden", slot, f[2]])
            else:
                last = recs[-1] if recs else None
                regs = dict(scn["state"]["regs"])
                if rs:
                    lr = rs[-1]
                    regs.update({"BA": lr[3], "I": lr[4], "X": lr[5], "Y": lr[6], "U": lr[7], "S": lr[8], "PC": lr[9],
                                 "FC": lr[10], "FZ": lr[11]})
                    regs.pop("F", None)
                new_slot = slot + 1
                pending += core.rs_setup(scn, new_slot)[:-len(scn["state"]["regs"])]
                pending.append(["c.impose", new_slot, {"regs": regs, "mem": [[a, [v]] for a, v in sorted(cum_rs.items())],
                                                       "power": rs[-1][12] if rs else 0}])
                slot = new_slot
            fi += 1
    return {"py": py, "rs": rs, "py_end": py_end}


def check(scn: Dict[str, Any], hist: Dict[str, Any]) -> List[Dict[str, Any]]:
    viols: List[dict] = []
    py, rs = hist["py"], [core.rs_norm(r) for r in hist["rs"]]
    code = scn["code"]
    n = min(len(py), len(rs))
    for k in range(n):
        a, b = py[k], rs[k]
        if a[14]:
            # the reference (Python) rejects these bytes: not a valid encoding, e.g. a jump landed inside an
            # instruction; nothing to compare (run ends normally)
            hist["_py_reject"] = 1
            break
        bad = None
        for idx in (0, 1, 3, 4, 5, 6, 7, 8, 9, 10, 11, 12, 13, 2):
            if a[idx] != b[idx]:
                bad = idx
                break
        if bad is not None or b[14]:
            # the instruction that was executed (a jump may have landed inside an instruction, or a block
            # move may have rewritten the program): only canonical encodings are judged
            if not core.canonical(_ins_bytes(a), a[0]):
                hist["_noncanonical"] = 1
                break
        if b[14]:
            viols.append(_viol(scn, k, "error", a, b, f"python executed it, rust error={b[14]}", py[k - 1] if k else None))
            break
        if bad is not None:
            viols.append(_viol(scn, k, FIELDS[bad], a, b, f"{FIELDS[bad]}: python {_s(a[bad])} rust {_s(b[bad])}",
                               py[k - 1] if k else None))
            break
    else:
        end = hist.get("py_end")
        if len(py) < len(rs) and ((py and py[-1][14]) or (end and (end["first"] in core.EXCLUDED or end.get("long_block")))):
            hist["_py_reject"] = 1      # the reference stopped at bytes it rejects or at RESET/WAIT (not compared)
        elif len(py) != len(rs):
            k = n
            viols.append({"cls": "diverge", "executor": "py+rs-core", "where": {"field": "run_length"},
                          "msg": f"replicas stopped after {len(py)} (python) / {len(rs)} (rust) steps", "at": k})
    return viols


def _s(v):
    t = str(v)
    return t if len(t) < 90 else t[:87] + "..."


def _ins_bytes(a) -> List[int]:
    """The bytes of the executed instruction as the Python replica fetched them."""
    fetched = a[15] if len(a) > 15 else []
    d = core.try_decode(list(fetched), a[0]) if fetched else None
    return list(fetched[:d[0]]) if d else list(fetched)


def _edge_pointer(scn, prev) -> bool:
    """A pointer register within 3 bytes of either end of the 20-bit space before the instruction."""
    if prev is not None:
        ptrs = prev[5:9]
    else:
        rg = scn["state"]["regs"]
        ptrs = [rg["X"], rg["Y"], rg["U"], rg["S"]]
    return any(p <= 3 or p >= 0xFFFFC for p in ptrs)


BCD_OPS = frozenset([0xC4, 0xC5, 0xD4, 0xD5, 0xEC, 0xFC])


def _circumstance(scn, a, b, prev, op: int, bs: List[int], field: str) -> Dict[str, Any]:
    """Narrow, observable circumstances under which a recorded divergence is known to occur; a divergence of a
    listed opcode outside its circumstance is reported as new."""
    out: Dict[str, Any] = {}
    i_before = prev[4] if prev is not None else scn["state"]["regs"]["I"]
    feat = a[16] if len(a) > 16 and isinstance(a[16], dict) else {}
    if op in core.BLOCK_OPS:
        if i_before == 0:
            out["excuse"] = "I0"                  # Python: no iteration; Rust: 65536
        elif feat.get("ov"):
            out["excuse"] = "ov"                  # an internal-memory pointer ran over 0x00/0xFF
        elif feat.get("arw"):
            out["excuse"] = "arw"                 # the instruction rewrote BP/PX/PY while using them
        elif op in BCD_OPS and feat.get("nbcd"):
            out["excuse"] = "nbcd"                # operands that are not BCD digits
        if field == "I" and a[4] == 0 and b[4] == i_before:
            out["pattern"] = "py_zero_rs_kept"
    if op in (0xC0, 0xC1, 0xC2):
        # EX/EXW/EXP (m),(n): how the exchange was set up
        has_pre = bool(bs) and bs[0] in core.PRES
        out["ex"] = "pre" if has_pre else ("arw" if feat.get("arw") else
                                           ("overlap" if feat.get("move") not in ("disjoint", None) else "plain"))
    if op in (0xCB, 0xCF) and "excuse" not in out:
        out["move"] = feat.get("move", "?")     # MVL/MVLD (m),(n): overlap direction of source and destination
    if op in (0x2E, 0x4F, 0xFE) and field == "writes":
        pw, rw = dict(map(tuple, a[13])), dict(map(tuple, b[13]))
        if set(pw) - {0x1000FB} == set(rw) - {0x1000FB} and all(pw[k] == rw[k] or pw[k] == (rw[k] & 3) for k in rw if k in pw):
            out["pattern"] = "f_low2"
    if op == 0x06 and field == "PC" and (a[0] & 0xFFFF) == 0xFFFF:
        out["pattern"] = "ret_last_byte_of_page"
    if op in (0xB4, 0xB5, 0xB6) and len(bs) >= 2:
        sel = bs[-1] if len(bs) == 2 else bs[(1 if bs[0] in core.PRES else 0) + 1]
        if (sel & 7) == (op & 7) and (sel >> 4) in (2, 3):
            out["pattern"] = "ptr_is_src"
    return out


def _viol(scn, k, field, a, b, msg, prev=None):
    pc = a[0]
    bs = _ins_bytes(a)
    pre = bs[0] if bs and bs[0] in core.PRES else None
    op = bs[1] if pre is not None and len(bs) > 1 else (bs[0] if bs else a[1])
    cls = "length" if field == "length" else "diverge"
    where = {"field": field, "opcode": f"{op:02X}", "pre": pre is not None}
    where.update(_circumstance(scn, a, b, prev, op, bs, field))
    if _edge_pointer(scn, prev):
        where["edge_pointer"] = True
    return {"cls": cls, "executor": "py+rs-core", "where": where,
            "msg": f"step {k} pc={pc:#x} bytes {' '.join(f'{x:02X}' for x in bs)}: {msg}", "at": k}


def stats(scn: Dict[str, Any], hist: Dict[str, Any]) -> Dict[str, Any]:
    py = hist["py"]
    probes: Dict[str, int] = {}
    extra: Dict[str, int] = {}
    code = scn["code"]
    wrote = False
    for rec in py:
        fb = rec[15] if len(rec) > 15 else [rec[1], 0]
        b0 = fb[0]
        pre = b0 in core.PRES
        op = fb[1] if pre else b0
        extra[f"cell_{op:02X}_{'p' if pre else 'n'}"] = 1
        if pre:
            probes["prefix"] = probes.get("prefix", 0) + 1
        if op in (0xCB, 0xCF, 0xD3, 0xDB, 0xE3, 0xEB, 0xF3, 0xFB, 0x54, 0x55, 0x5C, 0x5D, 0xC4, 0xC5, 0xD4, 0xD5, 0xEC, 0xFC):
            probes["block_instr"] = probes.get("block_instr", 0) + 1
        if op in (0x04, 0x05, 0x06, 0x07):
            probes["call_ret"] = probes.get("call_ret", 0) + 1
        if rec[9] <= rec[0] and op in core.CONTROL:
            probes["branch_taken_back"] = probes.get("branch_taken_back", 0) + 1
        if rec[12]:
            probes["lowpower"] = 1
        for a, _ in rec[13]:
            wrote = True
            probes["imem_write" if a >= 0x100000 else "ext_write"] = probes.get("imem_write" if a >= 0x100000 else "ext_write", 0) + 1
    faults = {"hidden_scramble": sum(1 for f in scn["faults"] if f[1] == "scramble"),
              "state_transplant": sum(1 for f in scn["faults"] if f[1] == "transplant")}
    if faults["hidden_scramble"]:
        probes["scramble"] = faults["hidden_scramble"]
    if faults["state_transplant"]:
        probes["transplant"] = faults["state_transplant"]
    if hist.get("_noncanonical"):
        probes["ended_at_noncanonical"] = 1
    if hist.get("_py_reject"):
        probes["ended_at_reject"] = 1
    return {"nontrivial": len(py) >= 5 and wrote, "sig": digest([scn["code"], scn["state"]["regs"], scn["faults"]]),
            "faults": faults, "probes": probes, "cycles": len(py), "boundaries": len(py), "extra": extra}


def sample(scn: Dict[str, Any], hist: Dict[str, Any]) -> Dict[str, Any]:
    return {"code_hex": " ".join(f"{b:02X}" for b in scn["code"][:48]), "regs": scn["state"]["regs"], "faults": [f[:2] for f in scn["faults"]],
            "python_steps": [r[:13] for r in hist["py"][:6]], "rust_steps": [r[:13] for r in hist["rs"][:6]]}


def shrink(scn: Dict[str, Any]):
    if scn["faults"]:
        for i in range(len(scn["faults"])):
            c = copy.deepcopy(scn)
            del c["faults"][i]
            yield c
    s = scn["steps"]
    for ns in (s // 2, s - 1):
        if 1 <= ns < s:
            c = copy.deepcopy(scn)
            c["steps"] = ns
            c["faults"] = [f for f in c["faults"] if f[0] < ns]
            yield c
    # NOP out one instruction at a time (same length: addresses stay valid)
    starts = scn["starts"]
    for i, off in enumerate(starts):
        end = starts[i + 1] if i + 1 < len(starts) else len(scn["code"]) - 8
        if all(b == 0 for b in scn["code"][off:end]):
            continue
        c = copy.deepcopy(scn)
        for j in range(off, end):
            c["code"][j] = 0
        yield c
