"""C11 — the memory bus behaves like memory: separate spaces, immutable ROM, LE words.

Seeded histories of 8/16/24-bit loads and stores at arbitrary 32-bit addresses run on the
Python PCE500Memory and the Rust MemoryImage under a swarm of memory configurations (ROM
image, memory card present/absent/sizes/read-only, extra RAM and ROM overlays, read-only
ranges, mirror on/off, topology changes mid-history).  A sparse reference memory built from
the *configuration description* is the oracle; each implementation is judged on its own.
"""
from __future__ import annotations

import copy
from typing import Any, Dict, List, Optional, Tuple

from ..rng import Rng
from ..rshost import host
from ..runner import Batch, digest

ID = "C11"
TITLE = "The memory bus behaves like memory: separate spaces, immutable ROM, LE words"
RULE = ("one run = one memory configuration (swarm: ROM image, card absent/8/16/32/64K/read-only, RAM/ROM overlays, "
        "read-only ranges, mirror) x a history of 40-300 loads/stores of width 8/16/24 at addresses biased to region "
        "edges, aliases (24-bit wrap, mirror window) and the internal/external boundary, with probe loads after every "
        "store and up to two topology changes; non-trivial = at least one multi-byte access straddling a region edge "
        "or one alias access; distinct = distinct (configuration, history) hash")
SCHEDULE_MEASURE = "distinct (configuration, operation history) hashes"
COMPONENTS = {
    "real": ["pce500/memory.py PCE500Memory.read_byte/write_byte/read_bytes/write_bytes/read_word/write_word/read_long/"
             "write_long + pce500/memory_bus.py", "sc62015/core/src/memory.rs MemoryImage::{load,store,overlays,mirror,"
             "read-only ranges,memory card}",
             "sc62015/core/src/device.rs DeviceModel::configure_runtime + sc62015/core/src/pce500.rs ROM loaders (a share of the "
             "Rust configurations installs the ROM image through them)"],
    "stub": ["no devices attached (LCD/keyboard windows are plain bus locations at this level; device windows are "
             "exercised through the machines in C15/C16)"],
}
ASSUMPTIONS = ["addresses 0x100100-0xFFFFFF (after 24-bit wrap) belong to neither space and are not generated, except "
               "0x100100-0x100102 as the tail of a wide access that starts in the last internal cells (judged under each "
               "implementation's own byte-level reduction: Python internal memory modulo 256, Rust external array modulo 1 MiB)",
               "card-slot addresses beyond the inserted card's size and reads of an absent card are unspecified; "
               "only 'writes are not latched' is demanded there",
               "Rust: overlays are not placed on the mirror window's target (0xB8000-0xBFFFF); Python (no mirror window) gets them there"]
PROBES = ["imem_store", "imem_wide_store", "imem_store_across_device_cell", "straddle_region_edge", "alias_wrap24", "alias_mirror", "rom_write", "readonly_write", "card_absent_write",
          "card_swap", "overlay_add", "overlay_remove", "int_ext_boundary", "imem_access", "wide_access"]

INT0 = 0x100000


def batches(tier: str) -> List[Batch]:
    # py / rs: the memory components driven directly; *-imem: the internal memory as the CPU's own bus reaches it
    # (generated store instructions executed by the whole machine, all 256 cells read back by the host at every
    # instruction boundary)
    if tier == "quick":
        return [Batch("py", "py-mem", 16000, 100), Batch("rs", "rs-mem", 80000, 500),
                Batch("rs-imem", "rs-machine", 6000, 200), Batch("py-imem", "py-machine", 320, 8)]
    return [Batch("py", "py-mem", 150000, 200), Batch("rs", "rs-mem", 800000, 500),
            Batch("rs-imem", "rs-machine", 400000, 500), Batch("py-imem", "py-machine", 12000, 20)]


# ----------------------------------------------------------------------------------------
# internal memory through the machine's CPU bus

# cells with device or status semantics on the machine's bus — keyboard ports KOL/KOH/KIL (F0-F2), E-port inputs
# (F5, F6), UART (F7-FA), interrupt mask/status (FB, FC), SCR/LCC/SSR (FD-FF): a store there is not required to read
# back.  Judged as memory: the RAM 0x00-0xEF (BP/PX/PY/AMC included) and the E-port output latches EOL/EOH (F3, F4)
IMEM_DEVICE_CELLS = frozenset([0xF0, 0xF1, 0xF2] + list(range(0xF5, 0x100)))
# IMR/ISR (0xFB/0xFC) are never stored to: a store there starts interrupt activity, which is C12's subject
_IMEM_NO_STORE = frozenset([0xFB, 0xFC])
_IMEM_EDGES = [0x00, 0x01, 0xEB, 0xEC, 0xED, 0xEE, 0xEF, 0xF0, 0xF1, 0xF2, 0xF3, 0xF4, 0xF5, 0xF8, 0xF9, 0xFA, 0xFD, 0xFE,
               0xFF, 0x7F, 0x80]


def _gen_imem(r: Rng, ex: str) -> Dict[str, Any]:
    from .. import progen
    code: List[int] = []
    plan: List[list] = []          # per instruction: None or [offset, [bytes stored]]
    n = r.choice([6, 12, 24])
    for _ in range(n):
        width = r.choice([1, 2, 3, 3])
        off = r.choice(_IMEM_EDGES) if r.chance(2, 3) else r.below(0x100)
        if off + width > 0x100:
            off = 0x100 - width
        if any((off + i) in _IMEM_NO_STORE for i in range(width)):
            off = 0xF3 - r.below(8)
        if r.chance(1, 5) and width == 1:
            v = r.below(256)
            code += [0x32, 0xCC, off, v]                             # PRE (n) direct: MV (n), imm8
            plan.append([off, [v]])
            continue
        v = r.below(1 << (8 * width)) | 1
        if width == 1:
            code += [0x08, v & 0xFF]                                 # MV A, imm8
            plan.append(None)
            code += [0x32, 0xA0, off]                                # MV (n), A
        elif width == 2:
            code += [0x0A, v & 0xFF, (v >> 8) & 0xFF]                # MV BA, imm16
            plan.append(None)
            code += [0x32, 0xA2, off]                                # MV (n), BA
        else:
            v &= 0xFFFFF
            reg = r.choice([0, 1])
            code += [0x0C + reg, v & 0xFF, (v >> 8) & 0xFF, (v >> 16) & 0xFF]   # MV X|Y, imm20
            plan.append(None)
            code += [0x32, 0xA4 + reg, off]                          # MV (n), X|Y
        plan.append([off, [(v >> (8 * i)) & 0xFF for i in range(width)]])
    code += [0x00] * 6
    base = progen.CODE_BASE
    prog = {"image": [[base, code]], "rom_tail": [0, 0, 0, base & 0xFF, (base >> 8) & 0xFF, (base >> 16) & 0xFF],
            "entry": base, "main": base, "handler": base, "code": [base, base + len(code) - 1], "ins": {}, "style": "imem"}
    return {"kind": "imem", "exec": ex, "prog": prog, "plan": plan,
            "regs": {"PC": base, "S": progen.S_INIT, "U": progen.U_INIT, "BA": 0, "I": 0, "X": 0, "Y": 0, "F": 0},
            "imem": [[progen.IMR, 0], [progen.ISR, 0]], "timer": {"enabled": False, "mti": 0, "sti": 0},
            "kb": {"press": 1, "release": 1, "repeat_delay": 24, "repeat_interval": 6, "active_high": True},
            "boundaries": len(plan), "ops": [], "watch": [[0x100000, 0x100]], "feat": {}, "faulty": False}


def _check_imem(scn: Dict[str, Any], hist: Dict[str, Any]) -> List[Dict[str, Any]]:
    from .. import machine
    viols: List[dict] = []
    probes: Dict[str, int] = {}
    hist["_probes"] = probes
    obs = hist["obs"]
    if not obs:
        return viols
    cells = list(obs[0][machine.O_WATCH][0])
    flagged = set()
    for k, step in enumerate(scn["plan"]):
        if k + 1 >= len(obs):
            break
        if step is not None:
            off, data = step
            for i, b in enumerate(data):
                cells[off + i] = b
            probes["imem_store"] = probes.get("imem_store", 0) + 1
            if len(data) > 1:
                probes["imem_wide_store"] = probes.get("imem_wide_store", 0) + 1
            if any((off + i) in IMEM_DEVICE_CELLS for i in range(len(data))) and any(
                    (off + i) not in IMEM_DEVICE_CELLS for i in range(len(data))):
                probes["imem_store_across_device_cell"] = probes.get("imem_store_across_device_cell", 0) + 1
        got = obs[k + 1][machine.O_WATCH][0]
        for c in range(0x100):
            if c in IMEM_DEVICE_CELLS:
                cells[c] = got[c]
                continue
            if got[c] != cells[c] and c not in flagged:
                flagged.add(c)
                cls = "raw" if step is not None and step[0] <= c < step[0] + len(step[1]) else "bleed"
                viols.append({"cls": cls, "executor": scn["exec"], "where": {"region": "imem", "level": "machine"},
                              "msg": f"instruction {k} ({'store ' + hex(step[0]) + ' x' + str(len(step[1])) if step else 'load immediate'}): "
                                     f"internal cell {c:#04x} reads {got[c]:#04x}, last stored {cells[c]:#04x}", "at": k})
                cells[c] = got[c]
    return viols


# ----------------------------------------------------------------------------------------
# configuration + reference memory


def _gen_cfg(r: Rng, ex: str) -> Dict[str, Any]:
    cfg: Dict[str, Any] = {"rom": r.chance(2, 3), "mirror": bool(ex == "rs-mem" and r.chance(2, 3)),
                           "card": r.choice(["default", "absent", 8192, 16384, 32768, 65536]),
                           "card_writable": True if ex == "rs-mem" else r.chance(3, 4),
                           "ram_ov": [], "rom_ov": [], "readonly": []}
    if r.chance(1, 2):
        start = r.choice([0x50000, 0x60000, 0x70000, 0x5FFF0])
        cfg["ram_ov"].append([start, r.choice([0x10, 0x100, 0x1000, 0x8000]), "xram"])
    if ex == "rs-mem" and cfg["mirror"] and r.chance(1, 4):
        # an expansion overlay placed inside the mirror window: the overlay is looked up on the address as issued,
        # before the window is folded onto the internal RAM, for loads and stores alike
        cfg["ram_ov"].append([r.choice([0x90000, 0xA7FF0, 0x88100]), r.choice([0x10, 0x100]), "mram"])
    rov = r.child("overlap")
    if cfg["ram_ov"] and cfg["ram_ov"][0][2] == "xram" and rov.chance(1, 3):
        # a second expansion that partially overlaps the first: in the overlap the bus must pick the same overlay
        # whatever was accessed before (both implementations search their overlays in (start, end, name) order)
        xs, xn, _ = cfg["ram_ov"][0]
        cfg["ram_ov"].append([xs + xn // 2, xn, "yram"])
    if ex == "py-mem" and rov.chance(1, 5):
        # Python has no mirror window: an expansion or ROM may sit on the internal RAM range 0xB8000-0xBFFFF
        cfg["ram_ov"].append([rov.choice([0xB0000, 0xB7FF0, 0xBC000, 0xBFF00]), rov.choice([0x100, 0x4000, 0x10000]), "iram_x"])
    if r.chance(1, 3):
        start = r.choice([0x58000, 0x6F000, 0x7FF00])
        n = r.choice([0x10, 0x100])
        cfg["rom_ov"].append([start, [r.below(256) for _ in range(n)], "xrom"])
    if ex == "rs-mem" and not cfg["rom"] and r.chance(1, 2):
        cfg["readonly"] = [[r.choice([0x10000, 0x30000]), r.choice([0x1000F, 0x300FF])]] \
            if r.chance(1, 2) else [[0x20000, 0x2FFFF]]
        rn = r.child("nested")
        if rn.chance(1, 3):
            # the table may hold nested, duplicate or adjacent ranges (one entry per read-only overlay of a Python
            # machine, passed through unchanged): the protected set is their union
            lo, hi = cfg["readonly"][0]
            mid = lo + (hi - lo) // 2
            cfg["readonly"] += rn.choice([[[lo + 4, min(hi, lo + 7)]], [[lo, hi]], [[mid, mid + 1], [lo, lo]], [[hi - 1, hi]]])
            if rn.chance(1, 2):
                cfg["readonly"] = [cfg["readonly"][-1]] + cfg["readonly"][:-1]
        if r.chance(1, 2):
            # a protected range inside the internal RAM that the mirror window aliases
            cfg["readonly"].append(r.choice([[0xB9000, 0xB90FF], [0xBFFF0, 0xBFFFF], [0xB8000, 0xB8003]]))
    if cfg["rom"]:
        rr = r.child("rom")
        cfg["rom_seed"] = rr.choice([0x1234, 0x0BAD, 0x7E57, 0x5EED])
        if ex == "py-mem":
            # an image shorter than the 256 KiB window: the window stays read-only, the uncovered part reads the
            # array underneath (the last 256 bytes of the window are then left alone: recorded IMEM alias)
            cfg["rom_len"] = rr.choice([None, None, 0x100, 0x8000, 0x20000])
        else:
            # the ROM reaches the memory the way a front end installs it — DeviceModel::configure_runtime with an image
            # file of some length (PC-E500: the last 256 KiB go into the ROM window; PC-E500-JP: a full 1 MiB system
            # image is loaded whole, a shorter file as for the PC-E500) — instead of the harness writing the window
            # and declaring the read-only map itself (None)
            cfg["loader"] = rr.choice([None, None, ["pce500", 0x40000], ["pce500", 0x100000], ["pce500", 0x8000],
                                       ["jp", 0x100000], ["jp", 0x100000], ["jp", 0x40000], ["jp", 0x20000],
                                       ["pce500", 0x80000]])
    return cfg


def _rom_byte(seed: int, a: int) -> int:
    return ((a * 2654435761 + seed * 40503) >> 7) & 0xFF


class Model:
    """Sparse reference memory.  Regions come from the configuration description; every access is
    decomposed into byte accesses at canonical locations."""

    def __init__(self, cfg: Dict[str, Any], ex: str):
        self.ex = ex
        self.cfg = copy.deepcopy(cfg)
        self.ext: Dict[int, int] = {}
        self.int: Dict[int, int] = {}
        self.ov: List[Dict[str, Any]] = []
        if ex == "py-mem":
            if cfg["card"] == "absent":
                self._add_ov({"start": 0x40000, "end": 0x4FFFF, "name": "memory_card_slot", "kind": "absent"})
            else:
                size = 65536 if cfg["card"] == "default" else cfg["card"]
                self._add_ov({"start": 0x40000, "end": 0x4FFFF, "name": "memory_card_slot", "kind": "card",
                              "size": size, "ro": not cfg["card_writable"] if cfg["card"] != "default" else False, "data": {}})
            if cfg["rom"]:
                self._add_ov({"start": 0xC0000, "end": 0xFFFFF, "name": "internal_rom", "kind": "rom",
                              "seed": cfg["rom_seed"], "len": cfg.get("rom_len")})
        else:
            if cfg["card"] == "absent":
                self._add_ov({"start": 0x40000, "end": 0x4FFFF, "name": "memory_card_slot", "kind": "absent"})
            elif cfg["card"] != "default":
                self._add_ov({"start": 0x40000, "end": 0x40000 + cfg["card"] - 1, "name": "memory_card", "kind": "ram",
                              "data": {}, "fill": 0x5A})
        for start, size, name in cfg["ram_ov"]:
            self._add_ov({"start": start, "end": start + size - 1, "name": name, "kind": "ram", "data": {}, "fill": 0})
        for start, data, name in cfg["rom_ov"]:
            self._add_ov({"start": start, "end": start + len(data) - 1, "name": name, "kind": "romdata", "bytes": list(data)})
        self.readonly = [tuple(x) for x in cfg["readonly"]]
        if ex == "rs-mem" and cfg["rom"]:
            self.readonly += [(0x00000, 0x3FFFF), (0xC0000, 0xFFFFF)]
        self.absent_seen: Dict[int, int] = {}
        # Rust: external 0x100-0x102 must be plain RAM for the tail reduction to coincide with an ordinary access
        self.tail_ok = ex == "py-mem" or (ex == "rs-mem" and not cfg["rom"] and
                                          not any(lo <= 0x102 and hi >= 0x100 for lo, hi in cfg["readonly"]))
        # a runtime configured by the device-model loaders seeds some internal registers (interrupt mask, serial
        # port): there the initial value of an internal cell is whatever is read first; it must then behave as memory
        self.int_learn = bool(ex == "rs-mem" and cfg["rom"] and cfg.get("loader"))

    def _add_ov(self, ov, replace=True):
        if replace:
            self.ov = [o for o in self.ov if o["name"] != ov["name"]]
        self.ov.append(ov)
        self.ov.sort(key=lambda o: (o["start"], o["end"], o["name"]))

    def remove_ov(self, name):
        self.ov = [o for o in self.ov if o["name"] != name]

    # -- canonicalisation ------------------------------------------------------------
    aliased_top = False

    def canon(self, a32: int) -> Optional[Tuple[str, int]]:
        a = a32 & 0xFFFFFF
        if a >= INT0:
            if a < INT0 + 0x100:
                return ("int", a - INT0)
            if a < INT0 + 0x103 and self.tail_ok:
                # the tail of a wide access that starts in the last cells of the internal memory.  0x100100 and up
                # belong to neither space; each implementation reduces them its own way, and that reduction is what
                # its *byte* accesses there show: Python takes every address from 0x100000 up as internal memory modulo
                # 256, Rust indexes its external array modulo 1 MiB.  A wide access must be the composition of those
                # byte accesses and change nothing else.  (Only these three addresses are generated: further up, Rust's
                # reduction bypasses mirror, overlays and write protection, which the property does not cover.)
                if self.ex == "py-mem":
                    return ("int", a - INT0 - 0x100)
                return ("ext", a & 0xFFFFF)
            return None
        if self.aliased_top and a >= 0xFFF00:
            return ("int", a - 0xFFF00)
        return ("ext", a)

    def _phys(self, a: int) -> int:
        if self.cfg["mirror"] and 0x80000 <= a <= 0xBFFFF:
            return 0xB8000 + (a & 0x7FFF)
        return a

    def _ext_backing(self, a: int) -> int:
        if a in self.ext:
            return self.ext[a]
        if self.ex == "rs-mem" and self.cfg["rom"] and self._image_covers(a):
            return _rom_byte(self.cfg["rom_seed"], a)
        return 0

    def _image_covers(self, a: int) -> bool:
        ld = self.cfg.get("loader")
        if not ld:
            return a >= 0xC0000
        if ld[0] == "jp" and ld[1] >= 0x100000:
            return True                       # full system image: every external byte starts as the file's byte
        return 0xC0000 <= a < 0xC0000 + min(ld[1], 0x40000)

    def specified(self, a32: int) -> bool:
        c = self.canon(a32)
        if c is None:
            return False
        if c[0] == "ext":
            if self.ex == "py-mem" and self.cfg.get("rom_len") and c[1] >= 0xFFF00:
                return False
        return True

    def read(self, a32: int) -> Optional[int]:
        """Expected byte, or None when the value is unspecified (absent card before first observation)."""
        c = self.canon(a32)
        if c is None:
            return None
        if c[0] == "int":
            return self.int.get(c[1], None if self.int_learn else 0)
        a = c[1]
        for o in self.ov:
            if not (o["start"] <= a <= o["end"]):
                continue
            k = o["kind"]
            if k == "absent":
                return self.absent_seen.get(a)
            if k == "card":
                off = a - o["start"]
                # beyond a card smaller than the slot: nothing is mapped — whatever is read there first must stay
                # (no store latches, and no store elsewhere shows through)
                return o["data"].get(off, 0) if off < o["size"] else self.absent_seen.get(a)
            if k == "rom":
                if o.get("len") and a - o["start"] >= o["len"]:
                    return self._ext_backing(self._phys(a))      # window not covered by the image
                return _rom_byte(o["seed"], a)
            if k == "romdata":
                return o["bytes"][a - o["start"]]
            if k == "ram":
                return o["data"].get(a - o["start"], o.get("fill", 0))
        return self._ext_backing(self._phys(a))

    def write(self, a32: int, v: int) -> str:
        """Apply a byte store; return the kind of location for probes."""
        c = self.canon(a32)
        if c is None:
            return "unspecified"
        if c[0] == "int":
            self.int[c[1]] = v
            return "int"
        a = c[1]
        for o in self.ov:
            if not (o["start"] <= a <= o["end"]):
                continue
            k = o["kind"]
            if k == "absent":
                return "card_absent"
            if k == "card":
                off = a - o["start"]
                if off < o["size"] and not o["ro"]:
                    o["data"][off] = v
                    return "card"
                return "card_ro"
            if k in ("rom", "romdata"):
                return "rom"
            if k == "ram":
                o["data"][a - o["start"]] = v
                return "ram_ov"
        p = self._phys(a)
        for lo, hi in self.readonly:
            if lo <= p <= hi:
                return "readonly"
        self.ext[p] = v
        return "mirror" if p != a else "ram"


def _edges(cfg: Dict[str, Any], ex: str) -> List[int]:
    e = [0x00000, 0x00001, 0xFFFFF, 0xFFFFE, 0xFFFFD, INT0, INT0 + 1, INT0 + 0xFE, INT0 + 0xFD, INT0 + 0xFB,
         0x3FFFF, 0x40000, 0x4FFFF, 0x50000, 0xBFFFF, 0xC0000, 0xBFFFE, 0xB8000, 0xB7FFF, 0x7FFFF, 0x80000,
         0x87FFF, 0x88000, 0x8FFFF, 0x90000, 0xB0000, 0xFFF00, 0xFFFFA, 0xFFFFB, 0xFFFFC]
    for start, size, _ in cfg["ram_ov"]:
        e += [start - 2, start - 1, start, start + size - 1, start + size - 2, start + size]
    for start, data, _ in cfg["rom_ov"]:
        e += [start - 1, start, start + len(data) - 1, start + len(data)]
    for lo, hi in cfg["readonly"]:
        e += [lo - 1, lo, hi, hi - 1, hi + 1]
        if 0xB8000 <= lo <= 0xBFFFF:
            for win in (0x80000, 0x98000, 0xB0000):
                e += [win + (lo & 0x7FFF) - 1, win + (lo & 0x7FFF), win + (hi & 0x7FFF), win + (hi & 0x7FFF) - 1]
    if isinstance(cfg["card"], int):
        e += [0x40000 + cfg["card"] - 1, 0x40000 + cfg["card"] - 2]
        if cfg["card"] < 0x10000:
            # the slot beyond a small card, and the addresses a mirrored decode would fold onto the card
            e += [0x40000 + cfg["card"], 0x40000 + cfg["card"] + 1, 0x40123, 0x40123 + cfg["card"], 0x40001,
                  0x40001 + cfg["card"]]
    if cfg.get("loader") and cfg["loader"][1] < 0x40000:
        end = 0xC0000 + cfg["loader"][1]
        e += [end - 2, end - 1, end, end + 1]
    if cfg.get("rom_len"):
        end = 0xC0000 + cfg["rom_len"]
        e += [end - 2, end - 1, end, end + 1, end + 0x1000, 0xFFEFE, 0xFFEFF]
    return [x for x in e if x >= 0]


def generate(batch: str, r: Rng, idx: int, tier: str) -> Dict[str, Any]:
    if batch.endswith("-imem"):
        return _gen_imem(r, "rs-machine" if batch.startswith("rs") else "py-machine")
    ex = "py-mem" if batch == "py" else "rs-mem"
    cfg = _gen_cfg(r.child("cfg"), ex)
    model = Model(cfg, ex)
    edges = _edges(cfg, ex)
    n = r.choice([40, 80, 150, 300])
    ops: List[list] = []
    ro = r.child("ops")
    changes = 0

    def addr() -> int:
        k = ro.below(10)
        if k < 5:
            a = ro.choice(edges)
        elif k < 7:
            a = ro.below(0x100000)
        elif k < 8:
            a = INT0 + ro.below(0x100)
        else:
            a = ro.choice([0xB8000, 0x88000, 0x90000, 0x80000, 0xA8000]) + ro.below(0x20)
        if ro.chance(1, 25):
            a = INT0 + 0xFD + ro.below(3)        # wide accesses here run over the top of the internal memory
        if ro.chance(1, 6):
            a += ro.range(1, 255) << 24          # 24-bit wrap alias
        return a

    def ok(a: int, nbytes: int) -> bool:
        return a >= 0 and all(model.specified(a + i) for i in range(nbytes))

    while len(ops) < n:
        kind = ro.weighted([("st", 10), ("ld", 4), ("topo", 1 if changes < 2 else 0)])
        if kind == "topo":
            changes += 1
            w = ro.below(4)
            if w == 0 and ex == "py-mem":
                ops.append(["cfg", "card", ro.choice([8192, 65536]), ro.chance(3, 4)])
            elif w == 0:
                ops.append(["cfg", "card", ro.choice([8192, 16384, 65536]), 0x5A])
            elif w == 1:
                ops.append(["cfg", "nocard"])
            elif w == 2:
                ops.append(["cfg", "ram", ro.choice([0x52000, 0x68000]), ro.choice([0x20, 0x1000]), "late_ram"])
            else:
                ops.append(["cfg", "rm", ro.choice(["xram", "late_ram", "xrom"])])
            _apply_cfg(model, ops[-1])
            continue
        bits = ro.choice([8, 8, 16, 16, 24])
        nb = bits // 8
        a = addr()
        if not ok(a, nb):
            continue
        if kind == "ld":
            ops.append(["ld", a, bits])
            continue
        v = ro.below(1 << bits) | 1
        ops.append(["st", a, bits, v])
        for i in range(nb):
            model.write(a + i, (v >> (8 * i)) & 0xFF)
        # probes: same access, every byte, neighbours, an alias
        ops.append(["ld", a, bits])
        for i in range(-1, nb + 1):
            if ok(a + i, 1):
                ops.append(["ld", a + i, 8])
        al = (a & 0xFFFFFF) + (ro.range(1, 200) << 24)
        if ok(al, nb):
            ops.append(["ld", al, bits])
        am = a & 0xFFFFFF
        if cfg["mirror"] and 0x80000 <= am <= 0xBFFFF and ok(0xB8000 + (am & 0x7FFF), 1):
            ops.append(["ld", 0xB8000 + (am & 0x7FFF), 8])
            ops.append(["ld", 0x80000 + (am & 0x7FFF), 8])
        # the other space at the same offset must not move
        if am >= INT0:
            if ok(0xFFF00 + (am & 0xFF), 1):
                ops.append(["ld", 0xFFF00 + (am & 0xFF), 8])
            ops.append(["ld", am & 0xFF, 8])
        elif am >= 0xFFF00:
            ops.append(["ld", INT0 + (am & 0xFF), 8])
        elif am < 0x100:
            ops.append(["ld", INT0 + am, 8])
    return {"kind": "mem", "exec": ex, "cfg": cfg, "ops": ops}


def _apply_cfg(model: Model, op: list) -> None:
    k = op[1]
    if k == "card":
        if model.ex == "py-mem":
            model._add_ov({"start": 0x40000, "end": 0x4FFFF, "name": "memory_card_slot", "kind": "card",
                           "size": op[2], "ro": not op[3], "data": {}})
        else:
            model.remove_ov("memory_card_slot")
            model._add_ov({"start": 0x40000, "end": 0x40000 + op[2] - 1, "name": "memory_card", "kind": "ram",
                           "data": {}, "fill": op[3]})
    elif k == "nocard":
        model.remove_ov("memory_card")
        model._add_ov({"start": 0x40000, "end": 0x4FFFF, "name": "memory_card_slot", "kind": "absent"})
        model.absent_seen = {}
    elif k == "ram":
        # Rust add_ram_overlay replaces an overlay of the same name; Python add_ram keeps both (first match wins)
        model._add_ov({"start": op[2], "end": op[2] + op[3] - 1, "name": op[4], "kind": "ram", "data": {}, "fill": 0},
                      replace=(model.ex == "rs-mem"))
    elif k == "rm":
        model.remove_ov(op[2])


# ----------------------------------------------------------------------------------------
# executors


def _setup_ops_rs(cfg: Dict[str, Any]) -> List[list]:
    ops: List[list] = [["cfg", "mirror", bool(cfg["mirror"])]]
    if cfg["rom"] and cfg.get("loader"):
        pass                                   # installed by mem.new_rt (execute)
    elif cfg["rom"]:
        # what load_pce500_rom_window does: image into the external array + the documented read-only windows
        ops.append(["cfg", "romimage", cfg["rom_seed"]])
        ops.append(["cfg", "pce500_map"])
    elif cfg["readonly"]:
        ops.append(["cfg", "readonly", cfg["readonly"]])
    if cfg["card"] == "absent":
        ops.append(["cfg", "nocard"])
    elif cfg["card"] != "default":
        ops.append(["cfg", "card", cfg["card"], 0x5A])
    for start, size, name in cfg["ram_ov"]:
        ops.append(["cfg", "ram", start, size, name])
    for start, data, name in cfg["rom_ov"]:
        ops.append(["cfg", "rom", start, data, name])
    return ops


_ROM_CACHE: Dict[int, bytes] = {}


def _run_py(scn: Dict[str, Any]) -> List[Any]:
    from pce500.memory import PCE500Memory
    cfg = scn["cfg"]
    m = PCE500Memory()
    if cfg["rom"]:
        seed = cfg["rom_seed"]
        if seed not in _ROM_CACHE:
            _ROM_CACHE[seed] = bytes(_rom_byte(seed, a) for a in range(0xC0000, 0x100000))
        m.load_rom(_ROM_CACHE[seed][:cfg["rom_len"]] if cfg.get("rom_len") else _ROM_CACHE[seed])
    if cfg["card"] == "absent":
        m.set_memory_card_present(False)
    elif cfg["card"] != "default":
        m.load_memory_card(b"", cfg["card"], writable=bool(cfg["card_writable"]))
    for start, size, name in cfg["ram_ov"]:
        m.add_ram(start, size, name)
    for start, data, name in cfg["rom_ov"]:
        m.add_rom(start, bytes(data), name)
    out: List[Any] = []
    for op in scn["ops"]:
        k = op[0]
        if k == "cfg":
            if op[1] == "card":
                m.load_memory_card(b"", op[2], writable=bool(op[3]))
            elif op[1] == "nocard":
                m.set_memory_card_present(False)
            elif op[1] == "ram":
                m.add_ram(op[2], op[3], op[4])
            elif op[1] == "rm":
                m.remove_overlay(op[2])
            out.append(None)
        elif k == "ld":
            a, bits = op[1], op[2]
            if bits == 8:
                out.append(m.read_byte(a) & 0xFF)
            elif bits == 16:
                out.append(m.read_word(a) if (op[1] & 1) else m.read_bytes(a, 2))
            else:
                out.append(m.read_long(a) if (op[1] & 1) else m.read_bytes(a, 3))
        else:
            a, bits, v = op[1], op[2], op[3]
            if bits == 8:
                m.write_byte(a, v)
            elif bits == 16:
                m.write_word(a, v) if (a & 1) else m.write_bytes(2, a, v)
            else:
                m.write_long(a, v) if (a & 1) else m.write_bytes(3, a, v)
            out.append(True)
    return out


def execute(scn: Dict[str, Any]) -> Dict[str, Any]:
    if scn.get("kind") == "imem":
        from .. import machine
        return machine.run_machine(scn)
    if scn["exec"] == "py-mem":
        return {"out": _run_py(scn)}
    setup = _setup_ops_rs(scn["cfg"])
    ld = scn["cfg"].get("loader") if scn["cfg"]["rom"] else None
    new = ["mem.new_rt", 0, ld[0], scn["cfg"]["rom_seed"], ld[1]] if ld else ["mem.new", 0]
    out = host().call([new, ["mem.script", 0, setup + scn["ops"]]])[0]
    return {"out": out[len(setup):]}


# ----------------------------------------------------------------------------------------


def check(scn: Dict[str, Any], hist: Dict[str, Any]) -> List[Dict[str, Any]]:
    if scn.get("kind") == "imem":
        return _check_imem(scn, hist)
    ex = scn["exec"]
    viols: List[dict] = []
    model = Model(scn["cfg"], ex)
    # "what if external 0xFFF00-0xFFFFF and the internal memory were one array" — used only to
    # attribute a mismatch to the recorded finding, never to excuse one
    alias = Model(scn["cfg"], ex) if (ex == "py-mem" and not scn["cfg"]["rom"]) else None
    if alias is not None:
        alias.aliased_top = True
    probes: Dict[str, int] = {}
    hist["_probes"] = probes
    last_store: Optional[list] = None
    last_kinds: List[str] = []
    byte_ok: Dict[int, bool] = {}    # canonical key -> last byte probe agreed with the model

    def probe(n):
        probes[n] = probes.get(n, 0) + 1

    def V(cls, i, msg, **where):
        viols.append({"cls": cls, "executor": ex, "where": where, "msg": f"op {i} {_fmt(scn['ops'][i])}: {msg}", "at": i})

    for i, (op, got) in enumerate(zip(scn["ops"], hist["out"])):
        k = op[0]
        if k == "cfg":
            _apply_cfg(model, op)
            if alias is not None:
                _apply_cfg(alias, op)
            probe({"card": "card_swap", "nocard": "card_swap", "ram": "overlay_add", "rm": "overlay_remove"}[op[1]])
            continue
        a, bits = op[1], op[2]
        nb = bits // 8
        if (a >> 24):
            probe("alias_wrap24")
        if nb > 1:
            probe("wide_access")
        am = a & 0xFFFFFF
        if am < INT0 <= am + nb - 1:
            probe("int_ext_boundary")
        if am >= INT0:
            probe("imem_access")
        if k == "st":
            kinds = []
            for j in range(nb):
                kinds.append(model.write(a + j, (op[3] >> (8 * j)) & 0xFF))
                if alias is not None:
                    alias.write(a + j, (op[3] >> (8 * j)) & 0xFF)
            last_store, last_kinds = op, kinds
            if len(set(kinds)) > 1:
                probe("straddle_region_edge")
            for kk in kinds:
                if kk == "rom":
                    probe("rom_write")
                elif kk == "readonly":
                    probe("readonly_write")
                elif kk == "card_absent":
                    probe("card_absent_write")
                elif kk == "mirror":
                    probe("alias_mirror")
            continue
        # load
        exp_bytes = [model.read(a + j) for j in range(nb)]
        if got is None:
            V("load_failed", i, "load returned nothing")
            continue
        got_bytes = [(got >> (8 * j)) & 0xFF for j in range(nb)]
        for j in range(nb):
            if exp_bytes[j] is None:
                # absent card: learn the value; it must then stay (writes are not latched)
                c = model.canon(a + j)
                if c and c[0] == "ext":
                    model.absent_seen[c[1]] = got_bytes[j]
                elif c and c[0] == "int":
                    model.int[c[1]] = got_bytes[j]
                exp_bytes[j] = got_bytes[j]
        if got_bytes == exp_bytes and (got >> bits) == 0:
            continue
        # classify
        j = next((x for x in range(nb) if got_bytes[x] != exp_bytes[x]), 0)
        loc = model.canon(a + j)
        region = _region_of(model, a + j)
        st = last_store
        st_span = set()
        if st is not None:
            st_span = set(model.canon(st[1] + x) for x in range(st[2] // 8))
        if nb > 1:
            cls, where = "le_compose", {"edge": _edge_kind(model, a, nb)}
        elif region in ("rom", "romdata"):
            cls, where = "rom_mutated", {}
        elif region == "readonly":
            cls, where = "readonly_mutated", {}
        elif region == "card_absent":
            cls, where = "absent_card_latched", {}
        elif st is not None and loc in st_span:
            cls, where = "raw", {"region": region, "wide_store": st[2] > 8,
                                 "edge": _edge_kind(model, st[1], st[2] // 8) if st[2] > 8 else "none"}
        elif st is not None and loc is not None and any(s is not None and s[0] != loc[0] for s in st_span):
            cls, where = "space_alias", {"changed": loc[0]}
        else:
            cls, where = "bleed", {"region": region}
        if alias is not None:
            alt = [alias.read(a + x) for x in range(nb)]
            if all(alt[x] is None or alt[x] == got_bytes[x] for x in range(nb)):
                where = dict(where)
                where["cause"] = "romless_imem_alias"
        V(cls, i, f"read {got:#x}, memory model says {sum(b << (8 * x) for x, b in enumerate(exp_bytes)):#x} "
          f"(last store {_fmt(st) if st else None}, byte kinds {last_kinds})", **where)
        # resynchronise the model to what the implementation holds so one defect is reported once
        if nb == 1 and got_bytes[0] != exp_bytes[0]:
            _force(model, a, got_bytes[0])
            if alias is not None:
                _force(alias, a, got_bytes[0])
    return viols


def _fmt(op):
    if op is None:
        return None
    return [op[0]] + [hex(x) if isinstance(x, int) and idx in (1, 3) else x for idx, x in enumerate(op)][1:]


def _region_of(model: Model, a32: int) -> str:
    c = model.canon(a32)
    if c is None:
        return "unspecified"
    if c[0] == "int":
        return "imem"
    a = c[1]
    for o in model.ov:
        if o["start"] <= a <= o["end"]:
            return {"absent": "card_absent", "card": "card", "rom": "rom", "romdata": "romdata", "ram": "ram_ov"}[o["kind"]]
    p = model._phys(a)
    for lo, hi in model.readonly:
        if lo <= p <= hi:
            return "readonly"
    return "mirror" if p != a else "ram"


def _edge_kind(model: Model, a: int, nb: int) -> str:
    regs = [_region_of(model, a + j) for j in range(nb)]
    am = a & 0xFFFFFF
    if am < INT0 <= am + nb - 1:
        return "ext_top_to_imem"
    if len(set(regs)) == 1:
        if regs[0] == "mirror" and (model._phys((a + nb - 1) & 0xFFFFF) != model._phys(a & 0xFFFFF) + nb - 1):
            return "mirror_wrap"
        return "none"
    return "+".join(sorted(set(regs)))


def _force(model: Model, a32: int, v: int) -> None:
    c = model.canon(a32)
    if c is None:
        return
    if c[0] == "int":
        model.int[c[1]] = v
        return
    a = c[1]
    for o in model.ov:
        if o["start"] <= a <= o["end"]:
            if o["kind"] in ("card", "ram"):
                o["data"][a - o["start"]] = v
            elif o["kind"] == "romdata":
                o["bytes"][a - o["start"]] = v
            elif o["kind"] == "absent":
                model.absent_seen[a] = v
            return
    model.ext[model._phys(a)] = v


def stats(scn: Dict[str, Any], hist: Dict[str, Any]) -> Dict[str, Any]:
    probes = dict(hist.get("_probes") or {})
    if scn.get("kind") == "imem":
        return {"nontrivial": bool(probes.get("imem_wide_store")), "sig": digest(scn["prog"]["image"]),
                "faults": {"imem_store_across_device_cell": probes.get("imem_store_across_device_cell", 0)},
                "probes": probes, "cycles": 0, "boundaries": len(scn["plan"])}
    nontrivial = bool(probes.get("straddle_region_edge") or probes.get("alias_wrap24") or probes.get("alias_mirror"))
    faults = {k: probes.get(k, 0) for k in ("rom_write", "readonly_write", "card_absent_write", "card_swap", "overlay_add",
                                            "overlay_remove", "alias_wrap24", "alias_mirror", "straddle_region_edge")}
    return {"nontrivial": nontrivial, "sig": digest([scn["cfg"], scn["ops"]]), "faults": faults, "probes": probes,
            "cycles": 0, "boundaries": len(scn["ops"])}


def sample(scn: Dict[str, Any], hist: Dict[str, Any]) -> Dict[str, Any]:
    if scn.get("kind") == "imem":
        return {"executor": scn["exec"], "code_hex": " ".join(f"{b:02X}" for b in scn["prog"]["image"][0][1][:48]),
                "plan": scn["plan"][:10]}
    cfg = dict(scn["cfg"])
    cfg["rom_ov"] = [[s, len(d), n] for s, d, n in cfg["rom_ov"]]
    return {"executor": scn["exec"], "cfg": cfg, "ops": [_fmt(o) for o in scn["ops"][:16]], "results": hist["out"][:16]}


def shrink(scn: Dict[str, Any]):
    if scn.get("kind") == "imem":
        n = scn["boundaries"]
        for cut in (n // 2, n - 1):
            if 1 <= cut < n:
                c = copy.deepcopy(scn)
                c["boundaries"] = cut
                c["plan"] = c["plan"][:cut]
                yield c
        return
    ops = scn["ops"]
    n = len(ops)
    for cut in (n // 2, (3 * n) // 4, n - 1):
        if 1 <= cut < n:
            c = copy.deepcopy(scn)
            c["ops"] = ops[:cut]
            yield c
    chunk = max(1, n // 4)
    while chunk >= 1:
        for i in range(0, n, chunk):
            c = copy.deepcopy(scn)
            c["ops"] = ops[:i] + ops[i + chunk:]
            if c["ops"]:
                yield c
        if chunk == 1:
            break
        chunk //= 2
    cfg = scn["cfg"]
    for key, empty in (("ram_ov", []), ("rom_ov", []), ("readonly", [])):
        if cfg[key]:
            c = copy.deepcopy(scn)
            c["cfg"][key] = empty
            yield c
    if cfg["mirror"]:
        c = copy.deepcopy(scn)
        c["cfg"]["mirror"] = False
        yield c
