"""C15 — LCD controllers follow the HD61202 protocol and map VRAM to pixels one-to-one.

Seeded histories of reads and writes over both LCD windows (all 16 low-nibble decodings,
values biased to command boundaries, long data bursts, interleaved reads) drive the Python
HD61202Controller and the Rust LcdController; an HD61202 reference model written from the
documented protocol is checked operation by operation against each, the two are compared
with each other, and the VRAM-bit -> pixel map is checked by seeded single-bit flips whose
order is a seeded permutation of all 2*8*64*8 bits.
"""
from __future__ import annotations

import copy
import zlib
from typing import Any, Dict, List, Optional

from ..rng import Rng
from ..rshost import host
from ..runner import Batch, digest

ID = "C15"
TITLE = "LCD controllers follow the HD61202 protocol and map VRAM to pixels one-to-one"
RULE = ("history runs: 20-400 (address, value) writes and address reads over 0x2000-0x2FFF / 0xA000-0xAFFF, all 16 "
        "low-nibble decodings, values biased to instruction boundaries, data bursts that wrap the column; non-trivial "
        "= at least one data write, one instruction and one read; distinct = distinct history hash. flip runs: a slice "
        "of a seeded permutation of all 8192 VRAM bits, each flipped alone on a cleared display")
SCHEDULE_MEASURE = "distinct operation-history hashes; VRAM bits flipped (of 8192)"
COMPONENTS = {
    "real": ["pce500/display/controller_wrapper.py HD61202Controller.read/write/reset/get_display_buffer",
             "pce500/display/hd61202.py", "pce500/display/pipeline.py",
             "sc62015/core/src/lcd.rs LcdController::{read,write,reset,export_snapshot,display_buffer}"],
    "stub": ["the bus in front of the controllers (machine-level LCD traffic is exercised by C16/C11)"],
}
ASSUMPTIONS = ["start_line scrolling of the rendered buffer is not part of the property (pixel clause checked with "
               "start line 0); counters and trace metadata are not compared",
               "busy flag: set by any write to the chip, cleared by a status read (documented in hd61202.py)"]
PROBES = ["controller_reset", "frame_fetch", "cs_none", "cs_both_read", "column_wrap", "data_read", "status_read", "instr_on_off", "start_line_set",
          "window_2000", "window_A000", "high_offset", "flip_hidden_bit", "window_mirror_address"]
TOTAL_BITS = 2 * 8 * 64 * 8


def batches(tier: str) -> List[Batch]:
    if tier == "quick":
        return [Batch("hist", "py+rs-lcd", 8000, 100), Batch("pix", "py+rs-lcd", 400, 10),
                Batch("flip", "py+rs-lcd", 64, 2), Batch("py-bus", "py-lcd", 160, 8), Batch("redraw", "py+rs-lcd", 1600, 50)]
    return [Batch("hist", "py+rs-lcd", 600000, 300), Batch("pix", "py+rs-lcd", 20000, 20),
            Batch("flip", "py+rs-lcd", 256, 2), Batch("py-bus", "py-lcd", 8000, 20), Batch("redraw", "py+rs-lcd", 80000, 100)]


def _gen_ops(r: Rng, n: int) -> List[list]:
    ops: List[list] = []
    odd_writes = r.chance(1, 4)      # write cycles at read addresses: only in a minority of histories
    while len(ops) < n:
        base = r.choice([0x2000, 0xA000])
        off = (r.below(256) << 4) if r.chance(1, 5) else 0
        kind = r.weighted([("instr", 8), ("data", 10), ("burst", 3), ("status", 4), ("dread", 4), ("odd", 3)])
        cs = r.weighted([(0x0, 3), (0x4, 4), (0x8, 4), (0xC, 1)])
        if kind == "instr":
            v = r.choice([0x3F, 0x3E, 0x3F, 0x40 | r.below(64), 0xB8 | r.below(8), 0xC0 | r.below(64), 0x7F, 0x40, 0xBF, 0xB8,
                          0xFF, 0xC0, 0x00, 0x01, r.below(256)])
            ops.append([0, base | off | cs, v])
        elif kind == "data":
            ops.append([0, base | off | cs | 2, r.below(256)])
        elif kind == "burst":
            for _ in range(r.choice([5, 20, 70])):
                ops.append([0, base | cs | 2, r.below(256)])
        elif kind == "status":
            ops.append([1, base | off | cs | 1])
        elif kind == "dread":
            ops.append([1, base | off | cs | 3])
        else:
            # reads in a write slot / writes in a read slot: decode decides, the value is ignored
            if r.chance(1, 2) or not odd_writes:
                ops.append([1, base | off | cs | (r.below(2) << 1)])
            else:
                ops.append([0, base | off | cs | 1 | (r.below(2) << 1), r.below(256)])
    return ops[:n + 80]


def generate(batch: str, r: Rng, idx: int, tier: str) -> Dict[str, Any]:
    if batch == "flip":
        total_slices = 64 if tier == "quick" else 256
        perm = Rng(0xC15F11B).shuffle(list(range(TOTAL_BITS)))     # one fixed seeded permutation, sliced by run index
        per = TOTAL_BITS // total_slices
        sl = perm[(idx % total_slices) * per:(idx % total_slices + 1) * per]
        if tier == "quick":
            sl = sl[:per // 2]       # quick tier visits half of every slice; thorough completes the permutation
        bits = [[b >> 12, (b >> 9) & 7, (b >> 3) & 63, b & 7] for b in sl]
        return {"kind": "flip", "exec": "py+rs-lcd", "bits": bits}
    if batch == "py-bus":
        # the windows as the Python machine's bus maps them: every address of 0xA000-0xAFFF (and 0x2000-0x200F) reaches
        # the controller and decodes by its low nibble only
        ops = _gen_ops(r, r.choice([20, 60]))
        rb = r.child("mirror")
        for op in ops:
            nib = op[1] & 0xF
            if (op[1] & 0xF000) == 0xA000 or rb.chance(1, 2):
                op[1] = 0xA000 | (rb.below(256) << 4) | nib
            else:
                op[1] = 0x2000 | nib
        rl = r.child("low-mirror")
        if rl.chance(1, 4):
            # the low window is documented as 0x2000-0x2FFF too: a share of the runs uses its mirror addresses
            for op in ops:
                if (op[1] & 0xF000) == 0x2000 and rl.chance(1, 2):
                    op[1] |= rl.range(1, 255) << 4
        # how the machine that owns the controller was built: plain, or with one of its LCD tracing options switched on
        # (write trace to a file that is never saved here, display trace) — observers that must not take part in the protocol
        owner = r.child("owner").choice(["default", "default", "lcd_trace", "display_trace"])
        return {"kind": "bus", "exec": "py-lcd", "ops": ops, "owner": owner}
    if batch == "redraw":
        # a screen is drawn and shown; the controllers are reset (or not); the same layout is drawn again with other
        # contents — exactly as many instruction and data writes per chip — and shown again.  Frames are fetched only
        # at those moments, not after every access
        rd = r.child("redraw")
        ops: List[list] = []
        for _ in range(rd.range(1, 3)):
            first = [[0, 0x2000 | rd.choice([0x0, 0x4, 0x8]), 0x3F]] if rd.chance(3, 4) else []
            first += [op for op in _gen_ops(rd, rd.choice([4, 12, 40])) if op[0] == 0 and not (op[1] & 1)]
            ops += first + [[4, 0, 0]]
            for _ in range(rd.range(1, 2)):
                if rd.chance(2, 3):
                    ops.append([3, 0, 0])
                again = [[0, op[1], rd.below(256) if (op[1] & 2) else op[2]] for op in first]
                ops += again + [[4, 0, 0]]
                if rd.chance(1, 3):
                    ops += [[1, 0x2000 | rd.choice([0x4, 0x8]) | rd.choice([1, 3])] for _ in range(rd.range(1, 3))] + [[4, 0, 0]]
        return {"kind": "hist", "exec": "py+rs-lcd", "ops": ops, "pixels": False}
    n = r.choice([20, 60, 150, 400]) if batch == "hist" else r.choice([20, 60])
    return {"kind": "hist", "exec": "py+rs-lcd", "ops": _gen_ops(r, n), "pixels": batch == "pix"}


# ----------------------------------------------------------------------------------------


def _py_regs(ctl) -> List[list]:
    out = []
    for chip in ctl.chips:
        s = zlib.crc32(b"".join(bytes(row) for row in chip.vram))
        out.append([bool(chip.state.on), int(chip.state.start_line), int(chip.state.page), int(chip.state.y_address),
                    bool(chip.state.busy), s])
    return out


def _py_pixels(ctl) -> List[List[int]]:
    buf = ctl.get_display_buffer()
    return [[int(v) for v in row] for row in buf]


def _run_py_hist(scn: Dict[str, Any]) -> Dict[str, Any]:
    from pce500.display.controller_wrapper import HD61202Controller
    ctl = HD61202Controller()
    trace = []
    for op in scn["ops"]:
        ret = None
        changed = None
        before = _py_pixels(ctl) if (scn.get("pixels") and op[0] == 0) else None
        if op[0] == 3:
            ctl.reset()
        elif op[0] == 4:
            ret = ["".join("1" if v else "0" for v in row) for row in _py_pixels(ctl)]
        elif op[0] == 0:
            ctl.write(op[1], op[2])
        else:
            ret = ctl.read(op[1])
        if before is not None:
            after = _py_pixels(ctl)
            changed = [[r, c] for r in range(32) for c in range(240) if after[r][c] != before[r][c]]
        trace.append([ret, _py_regs(ctl), changed, True])
    vram = []
    for chip in ctl.chips:
        for row in chip.vram:
            vram.extend(int(v) & 0xFF for v in row)
    return {"trace": trace, "vram": vram, "pixels": ["".join("1" if v else "0" for v in row) for row in _py_pixels(ctl)]}


def _run_py_flip(bits: List[list]) -> List[list]:
    from pce500.display.controller_wrapper import HD61202Controller
    out = []
    for chip, page, col, bit in bits:
        ctl = HD61202Controller()
        ctl.write(0x2000, 0x3F)
        base = _py_pixels(ctl)
        cs = 0x8 if chip == 0 else 0x4
        ctl.write(0x2000 | cs, 0xB8 | page)
        ctl.write(0x2000 | cs, 0x40 | col)
        ctl.write(0x2000 | cs | 2, 1 << bit)
        after = _py_pixels(ctl)
        out.append([[r, c] for r in range(32) for c in range(240) if after[r][c] != base[r][c]])
    return out


def _run_py_bus(scn: Dict[str, Any]) -> Dict[str, Any]:
    """The same accesses through the machine's memory bus (controller attached by the emulator) and on a bare
    controller at the base address of the window with the same low nibble."""
    from pce500.display.controller_wrapper import HD61202Controller
    from pce500.emulator import PCE500Emulator
    kw = {}
    if scn.get("owner") == "lcd_trace":
        import os
        from .. import machine
        kw["lcd_trace_file"] = os.path.join(machine.scratch_dir(), f"lcd-trace-{os.getpid()}.json")
    elif scn.get("owner") == "display_trace":
        kw["enable_display_trace"] = True
    emu = PCE500Emulator(save_lcd_on_exit=False, perfetto_trace=False, **kw)
    ref = HD61202Controller()
    trace = []
    for op in scn["ops"]:
        base = (op[1] & 0xF000) | (op[1] & 0xF)
        if op[0] == 0:
            emu.memory.write_byte(op[1], op[2])
            ref.write(base, op[2])
            got = want = None
        else:
            got = emu.memory.read_byte(op[1])
            want = ref.read(base)
        rec = [got, want, _py_regs(emu.lcd), _py_regs(ref)]
        if (op[1] & 0xF000) == 0x2000 and (op[1] & 0xFF0) and (rec[2] != rec[3] or (op[0] == 1 and want is not None and got != (want & 0xFF))):
            # a mirror address of the low window that the bus did not take to the controller: the mismatch is reported;
            # the machine's controller then gets the access directly so that the rest of the run stays comparable
            pre = list(rec)
            if op[0] == 0:
                emu.lcd.write(base, op[2])
            else:
                emu.lcd.read(base)
            rec = pre + [_py_regs(emu.lcd) == _py_regs(ref)]
        trace.append(rec)
    return {"trace": trace}


def _check_bus(scn: Dict[str, Any], hist: Dict[str, Any]) -> List[dict]:
    viols: List[dict] = []
    hist["_probes"] = probes = {}
    for i, (op, rec) in enumerate(zip(scn["ops"], hist["trace"])):
        got, want, bus_regs, ref_regs = rec[:4]
        low_mirror = (op[1] & 0xF000) == 0x2000 and bool(op[1] & 0xFF0)
        if low_mirror:
            probes["low_window_mirror_address"] = probes.get("low_window_mirror_address", 0) + 1
        if op[1] & 0xFF0:
            probes["window_mirror_address"] = probes.get("window_mirror_address", 0) + 1
        if bus_regs != ref_regs:
            viols.append({"cls": "decode", "executor": "py-lcd", "where": {"level": "bus", "window": f"{op[1] & 0xF000:#06x}",
                                                                              "low_mirror": low_mirror},
                          "msg": f"op {i} {['write', 'read'][op[0]]} at {op[1]:#06x} through the machine bus left the controller in "
                                 f"{bus_regs}, the same access on the controller gives {ref_regs}", "at": i})
            if not (low_mirror and len(rec) > 4 and rec[4]):
                break
            continue
        if op[0] == 1 and want is not None and got != (want & 0xFF):
            viols.append({"cls": "read_value", "executor": "py-lcd", "where": {"level": "bus", "window": f"{op[1] & 0xF000:#06x}",
                                                                                  "low_mirror": low_mirror, **({"owner": scn["owner"]} if scn.get("owner", "default") != "default" and not low_mirror else {})},
                          "msg": f"op {i} read at {op[1]:#06x} through the machine bus returned {got}, the controller returns {want}",
                          "at": i})
            if not (low_mirror and len(rec) > 4 and rec[4]):
                break
    return viols


def execute(scn: Dict[str, Any]) -> Dict[str, Any]:
    if scn["kind"] == "bus":
        return _run_py_bus(scn)
    if scn["kind"] == "flip":
        rs = host().call([["l.flip", 0, scn["bits"]]])[0]
        return {"py": _run_py_flip(scn["bits"]), "rs": rs}
    rs = host().call([["l.new", 0], ["l.script", 0, scn["ops"], bool(scn.get("pixels"))]])[0]
    return {"py": _run_py_hist(scn), "rs": rs}


# ----------------------------------------------------------------------------------------
# HD61202 reference model (two chips; index 0 = left = CS 10, index 1 = right = CS 01)


class _Chip:
    def __init__(self):
        self.on = False
        self.start_line = 0
        self.page = 0
        self.y = 0
        self.busy = False
        self.vram = [[0] * 64 for _ in range(8)]

    def regs(self):
        s = zlib.crc32(b"".join(bytes(row) for row in self.vram))
        return [self.on, self.start_line, self.page, self.y, self.busy, s]


def _decode(addr: int):
    lo = addr & 0xF
    rw = lo & 1
    di = (lo >> 1) & 1
    cs = (lo >> 2) & 3
    chips = {0: [0, 1], 1: [1], 2: [0], 3: []}[cs]
    return rw, di, cs, chips


def _check_hist(scn: Dict[str, Any], hist: Dict[str, Any]) -> List[dict]:
    viols: List[dict] = []
    probes: Dict[str, int] = {}
    hist["_probes"] = probes

    def probe(n):
        probes[n] = probes.get(n, 0) + 1

    def V(cls, ex, i, msg, **where):
        viols.append({"cls": cls, "executor": ex, "where": where, "msg": f"op {i} {scn['ops'][i]}: {msg}", "at": i})

    models = {"py-lcd": [_Chip(), _Chip()], "rs-lcd": [_Chip(), _Chip()]}
    done = {"py-lcd": False, "rs-lcd": False}
    split = False      # the two implementations are known to have parted (known finding): stop comparing them

    def apply(chips, op, honour_rw=True):
        """Apply one bus cycle to a model; return the value a read must return (or None)."""
        addr = op[1]
        rw, di, cs, sel = _decode(addr)
        ret = None
        if op[0] == 0:
            if rw == 0 or not honour_rw:
                v = op[2] & 0xFF
                for c in sel:
                    ch = chips[c]
                    ch.busy = True
                    if di == 0:
                        top = v >> 6
                        if top == 0:
                            ch.on = bool(v & 1)
                        elif top == 1:
                            ch.y = v & 0x3F
                        elif top == 2:
                            ch.page = v & 7
                        else:
                            ch.start_line = v & 0x3F
                    else:
                        ch.vram[ch.page][ch.y] = v
                        ch.y = (ch.y + 1) % 64
        else:
            if rw == 1 and len(sel) == 1:
                ch = chips[sel[0]]
                if di == 1:
                    ret = ch.vram[ch.page][(ch.y - 1) % 64]
                    ch.y = (ch.y + 1) % 64
                else:
                    ret = (0x80 if ch.busy else 0) | (0 if ch.on else 0x20)
                    ch.busy = False
        return ret

    for i, op in enumerate(scn["ops"]):
        if op[0] in (3, 4):
            probe("controller_reset" if op[0] == 3 else "frame_fetch")
            for ex, key in (("py-lcd", "py"), ("rs-lcd", "rs")):
                if done[ex]:
                    continue
                ret, regs, _, _ = hist[key]["trace"][i]
                if op[0] == 3:
                    models[ex] = [_Chip(), _Chip()]
                chips = models[ex]
                model_regs = [c.regs() for c in chips]
                names = ["on", "start_line", "page", "y_address", "busy", "vram"]
                bad = [(c, f) for c in range(2) for f in range(6)
                       if not (regs[c][f] is None and f == 4) and regs[c][f] != model_regs[c][f]]
                if bad:
                    c, f = bad[0]
                    V("state", ex, i, f"after {'reset' if op[0] == 3 else 'a frame fetch'}: chip {c} {names[f]} = {regs[c][f]}, "
                      f"protocol says {model_regs[c][f]}", field=names[f])
                    done[ex] = True
                    continue
                if op[0] == 4 and ret and not any(c.on and c.start_line != 0 for c in chips):
                    exp = _expected_pixels(chips)
                    cols = []
                    if chips[1].on:
                        cols += list(range(0, 64)) + list(range(176, 240))
                    if chips[0].on:
                        cols += list(range(64, 176))
                    wrong = [(r, x) for r in range(32) for x in cols if str(ret[r][x]) != str(exp[r][x])]
                    if wrong:
                        V("pixel_map", ex, i, f"fetched frame differs from the layout at {len(wrong)} pixels of chips that are on, "
                          f"first (row {wrong[0][0]}, column {wrong[0][1]})", what="frame")
                        done[ex] = True
            continue
        addr = op[1]
        rw, di, cs, sel = _decode(addr)
        probe("window_2000" if (addr & 0xF000) == 0x2000 else "window_A000")
        if addr & 0x0FF0:
            probe("high_offset")
        if cs == 3:
            probe("cs_none")
        if op[0] == 0 and rw == 0 and di == 0 and (op[2] >> 6) == 0:
            probe("instr_on_off")
        if op[0] == 0 and rw == 0 and di == 0 and (op[2] >> 6) == 3:
            probe("start_line_set")
        if op[0] == 1 and rw == 1 and len(sel) == 2:
            probe("cs_both_read")
        if op[0] == 1 and rw == 1 and len(sel) == 1:
            probe("data_read" if di else "status_read")
        recs = {"py-lcd": hist["py"]["trace"][i], "rs-lcd": hist["rs"]["trace"][i]}
        for ex, rec in recs.items():
            if done[ex]:
                continue
            chips = models[ex]
            ret, regs, changed, _ = rec
            odd_write = op[0] == 0 and rw == 1 and cs != 3
            if odd_write:
                # a write cycle at an address that decodes as a read: the protocol ignores it.  If the
                # implementation applied it instead, say so once and follow it (DESIGN section 6.4).
                alt = copy.deepcopy(chips)
                apply(alt, op, honour_rw=False)
                if [c.regs() for c in alt] != [c.regs() for c in chips] and \
                        [[r for r in rg] for rg in regs] == [c.regs() for c in alt]:
                    V("state", ex, i, "a write cycle at an address whose bit 0 says 'read' was executed as a write",
                      cause="write_at_read_address")
                    models[ex] = alt
                    split = True
                    continue
            pre_y = [c.y for c in chips]
            exp_ret = apply(chips, op)
            if op[0] == 0 and rw == 0 and di == 1 and any(pre_y[c] == 63 for c in sel):
                probe("column_wrap")
            model_regs = [c.regs() for c in chips]
            if op[0] == 1 and ret != exp_ret:
                kind = "decode" if (ret is None) != (exp_ret is None) else "read_value"
                V(kind, ex, i, f"read returned {ret}, protocol says {exp_ret}", what="status" if di == 0 else "data")
                done[ex] = True
                continue
            for c in range(2):
                names = ["on", "start_line", "page", "y_address", "busy", "vram"]
                for f in range(6):
                    if regs[c][f] is None and f == 4:
                        continue
                    if regs[c][f] != model_regs[c][f]:
                        V("state", ex, i, f"chip {c} {names[f]} = {regs[c][f]}, protocol says {model_regs[c][f]}",
                          field=names[f])
                        done[ex] = True
                        break
                if done[ex]:
                    break
            if not done[ex] and changed is not None and op[0] == 0 and di == 1 and rw == 0 and \
                    all(chips[c].start_line == 0 for c in sel):
                cols = set(c for _, c in changed)
                # one display column of at most eight pixels per chip addressed (CS "both" addresses two chips)
                if len(cols) > max(1, len(sel)) or len(changed) > 8 * max(1, len(sel)):
                    V("pixel_map", ex, i, f"a single write changed {len(changed)} pixels in columns {sorted(cols)[:6]}",
                      what="write_spreads")
                    done[ex] = True
        # the two implementations against each other
        if not split and not done["py-lcd"] and not done["rs-lcd"]:
            p, q = recs["py-lcd"], recs["rs-lcd"]
            if p[0] != q[0]:
                V("py_rs_diverge", "py+rs-lcd", i, f"read value python {p[0]} rust {q[0]}", field="read")
                break
    if not viols:
        # the rendered buffer against the documented layout, per implementation: a pixel is lit when its one VRAM
        # bit is clear (the LCD is driven inverted) and its chip is on; a chip that is off contributes blank pixels
        # whatever the other chip does.  Judged when every chip that is on has start line 0.
        for ex, key in (("py-lcd", "py"), ("rs-lcd", "rs")):
            chips = models[ex]
            got = hist[key].get("pixels")
            if done[ex] or not got or any(c.on and c.start_line != 0 for c in chips):
                continue
            exp = _expected_pixels(chips)
            # only the regions of chips that are on are judged (what an off chip shows — blank in Python, its VRAM in
            # Rust — is not stated by the property)
            cols = []
            if chips[1].on:
                cols += list(range(0, 64)) + list(range(176, 240))
            if chips[0].on:
                cols += list(range(64, 176))
            bad = [(r, x) for r in range(32) for x in cols if str(got[r][x]) != str(exp[r][x])]
            if bad:
                V("pixel_map", ex, len(scn["ops"]) - 1, f"rendered buffer differs from the layout at {len(bad)} pixels of chips "
                  f"that are on, first (row {bad[0][0]}, column {bad[0][1]}); chips on (left, right) = {[c.on for c in chips]}",
                  what="layout", chips_on="".join("1" if c.on else "0" for c in chips))
    if not viols and not split:
        chips = models["py-lcd"]
        if hist["py"]["vram"] != hist["rs"]["vram"]:
            V("py_rs_diverge", "py+rs-lcd", len(scn["ops"]) - 1, "final VRAM differs", field="vram")
        elif all(c.start_line == 0 and c.on for c in chips) and hist["py"]["pixels"] != hist["rs"]["pixels"]:
            V("py_rs_diverge", "py+rs-lcd", len(scn["ops"]) - 1, "rendered display differs with both chips on and start line 0",
              field="pixels")
    return viols


def _expected_pixels(chips) -> List[List[int]]:
    """32 x 240 buffer from the two chips' VRAM by the documented layout (index 0 = left, 1 = right)."""
    buf = [[0] * 240 for _ in range(32)]
    left, right = chips[0], chips[1]
    for row in range(32):
        pg, bit = row // 8, row % 8
        if right.on:
            for col in range(64):
                buf[row][col] = 1 - ((right.vram[pg][col] >> bit) & 1)
                buf[row][176 + (63 - col)] = 1 - ((right.vram[4 + pg][col] >> bit) & 1)
        if left.on:
            for col in range(56):
                buf[row][64 + col] = 1 - ((left.vram[pg][col] >> bit) & 1)
                buf[row][120 + (55 - col)] = 1 - ((left.vram[4 + pg][col] >> bit) & 1)
    return buf


def _check_flip(scn: Dict[str, Any], hist: Dict[str, Any]) -> List[dict]:
    viols: List[dict] = []
    hist["_probes"] = probes = {}
    for ex, res in (("py-lcd", hist["py"]), ("rs-lcd", hist["rs"])):
        seen: Dict[tuple, list] = {}
        for bit, diff in zip(scn["bits"], res):
            chip, page, col, b = bit
            visible = not (chip == 0 and col >= 56)
            # documented layout: right chip pages 0-3 -> columns 0..63, left chip pages 0-3 -> 64..119,
            # left pages 4-7 mirrored -> 120..175, right pages 4-7 mirrored -> 176..239; row = (page%4)*8+bit
            if visible:
                row = (page % 4) * 8 + b
                if chip == 1:
                    x = col if page < 4 else 176 + (63 - col)
                else:
                    x = 64 + col if page < 4 else 120 + (55 - col)
                want = [[row, x]]
            else:
                want = []
                probes["flip_hidden_bit"] = probes.get("flip_hidden_bit", 0) + 1
            if len(diff) != len(want):
                viols.append({"cls": "pixel_map", "executor": ex, "where": {"what": "count"},
                              "msg": f"VRAM bit chip {chip} page {page} col {col} bit {b} drives {len(diff)} pixels "
                                     f"{diff[:4]} (expected {len(want)})", "at": 0})
                continue
            if diff != want:
                viols.append({"cls": "pixel_map", "executor": ex, "where": {"what": "position"},
                              "msg": f"VRAM bit chip {chip} page {page} col {col} bit {b} drives pixel {diff}, documented "
                                     f"layout says {want}", "at": 0})
            for px in diff:
                key = tuple(px)
                if key in seen:
                    viols.append({"cls": "pixel_map", "executor": ex, "where": {"what": "shared_pixel"},
                                  "msg": f"pixel {px} is driven by bits {seen[key]} and {bit}", "at": 0})
                seen[key] = bit
    return viols


def check(scn: Dict[str, Any], hist: Dict[str, Any]) -> List[Dict[str, Any]]:
    if scn["kind"] == "bus":
        return _check_bus(scn, hist)
    if scn["kind"] == "flip":
        return _check_flip(scn, hist)
    return _check_hist(scn, hist)


def stats(scn: Dict[str, Any], hist: Dict[str, Any]) -> Dict[str, Any]:
    probes = dict(hist.get("_probes") or {})
    if scn["kind"] == "bus":
        return {"nontrivial": bool(probes.get("window_mirror_address")), "sig": digest(scn["ops"]),
                "faults": {"window_mirror_address": probes.get("window_mirror_address", 0)}, "probes": probes,
                "cycles": 0, "boundaries": len(scn["ops"])}
    if scn["kind"] == "flip":
        return {"nontrivial": True, "sig": digest(scn["bits"]), "faults": {}, "probes": probes,
                "cycles": 0, "boundaries": len(scn["bits"]), "extra": {"vram_bits_flipped": len(scn["bits"])}}
    ops = scn["ops"]
    nw = sum(1 for o in ops if o[0] == 0 and (o[1] & 3) == 2)
    ni = sum(1 for o in ops if o[0] == 0 and (o[1] & 3) == 0)
    nr = sum(1 for o in ops if o[0] == 1)
    return {"nontrivial": nw > 0 and ni > 0 and nr > 0, "sig": digest(ops),
            "faults": {"cs_none": probes.get("cs_none", 0), "cs_both_read": probes.get("cs_both_read", 0),
                       "column_wrap": probes.get("column_wrap", 0),
                       "read_in_write_slot": sum(1 for o in ops if o[0] == 1 and not (o[1] & 1))},
            "probes": probes, "cycles": 0, "boundaries": len(ops)}


def sample(scn: Dict[str, Any], hist: Dict[str, Any]) -> Dict[str, Any]:
    if scn["kind"] == "bus":
        return {"ops": [[o[0], hex(o[1])] + o[2:] for o in scn["ops"][:20]], "reads_bus_vs_controller": [t[:2] for t in hist["trace"][:20]]}
    if scn["kind"] == "flip":
        return {"bits": scn["bits"][:6], "python": hist["py"][:6], "rust": hist["rs"][:6]}
    return {"ops": [[o[0], hex(o[1])] + o[2:] for o in scn["ops"][:20]],
            "python_reads": [t[0] for t in hist["py"]["trace"][:20]], "rust_reads": [t[0] for t in hist["rs"]["trace"][:20]]}


def shrink(scn: Dict[str, Any]):
    if scn["kind"] == "flip":
        b = scn["bits"]
        if len(b) > 1:
            for half in (b[:len(b) // 2], b[len(b) // 2:]):
                c = copy.deepcopy(scn)
                c["bits"] = half
                yield c
        return
    ops = scn["ops"]
    n = len(ops)
    for cut in (n // 2, (3 * n) // 4, n - 1):
        if 1 <= cut < n:
            c = copy.deepcopy(scn)
            c["ops"] = ops[:cut]
            yield c
    chunk = max(1, n // 4)
    while chunk >= 1:
        for i in range(0, n, chunk):
            c = copy.deepcopy(scn)
            c["ops"] = ops[:i] + ops[i + chunk:]
            if c["ops"]:
                yield c
        if chunk == 1:
            break
        chunk //= 2
