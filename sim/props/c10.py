"""C10 — assembling a program lays out code, data and labels consistently (partial).

Claimed part: histories of Assembler.assemble() calls on one or two Assembler objects in one
process, including calls that fail in the parser, in pass 1 (duplicate label) or in pass 2
(undefined symbol, cross-page near call): every successful program of such a history must
produce exactly what a fresh Assembler produces, what a separate reference interpreter
produces, and what the same call produces when repeated; and on every such program the
layout laws are evaluated against a compositional model (each statement assembled alone at
its address with symbols replaced by values).
Not claimed: that the layout laws hold for all programs.
"""
from __future__ import annotations

import copy
from typing import Any, Dict, List, Optional, Tuple

from ..asmref import ref
from ..rng import Rng
from ..runner import Batch, digest

ID = "C10"
TITLE = "Assembling a program lays out code, data and labels consistently"
RULE = ("one run = a history of 2-8 assemble() calls on one or two Assembler objects; programs of 3-40 statements drawn "
        "from the grammar (instructions with and without symbolic operands, forward/backward labels, SECTION, .ORG, "
        "defb/defw/defl/defs/defm), a share deliberately failing in the parser, pass 1 or pass 2; non-trivial = at least "
        "one failing call followed by a successful one, or an Assembler object reused; distinct = distinct history hash")
SCHEDULE_MEASURE = "distinct call-history hashes"
COMPONENTS = {
    "real": ["sc62015/pysc62015/sc_asm.py Assembler.assemble/_first_pass/_second_pass", "sc62015/pysc62015/asm.py + asm.lark",
             "instr encode()", "REVERSE_OPCODES_CACHE / OPCODES operand templates (process-wide state)"],
    "stub": ["bincopy only as the container the assembler returns"],
}
ASSUMPTIONS = ["the reference interpreter assembles every probe program with a fresh Assembler; it is long-lived per "
               "worker, so process-global residue is detected by difference of histories, not by absolute freshness"]
PROBES = ["aborted_parse", "aborted_pass1", "aborted_pass2", "object_reused", "forward_ref", "backward_ref", "cross_page_rejected",
          "sections", "org", "bss", "label_on_directive", "org_by_label", "custom_section_rejected"]

NOSYM = ["NOP", "RET", "RETF", "SC", "RC", "HALT", "SWAP A", "MV A, 0x{b}", "MV BA, 0x{w}", "MV X, 0x{l}", "MV Y, 0x{l}",
         "ADD A, 0x{b}", "SUB A, 0x{b}", "AND A, 0x{b}", "OR A, 0x{b}", "XOR A, 0x{b}", "CMP A, 0x{b}", "PUSHU A", "POPU A",
         "PUSHS F", "POPS F", "MV A, [0x{l}]", "MV [0x{l}], A", "MV A, (0x{i})", "MV (0x{i}), A", "MV (0x{i}), 0x{b}",
         "JR +0x{r}", "JR -0x{r}", "JRZ +0x{r}", "JRNC -0x{r}", "MV A, [X]", "MV [Y++], A", "MV A, [--X]", "INC A", "DEC A",
         "MV A, B", "MV B, A", "WAIT", "TCL", "IR", "MVW (0x{i}), 0x{w}", "TEST A, 0x{b}", "MV IL, 0x{b}", "MV I, 0x{w}"]
SYM = ["JP {L}", "JPZ {L}", "JPNZ {L}", "JPC {L}", "JPNC {L}", "CALL {L}", "CALLF {L}", "JPF {L}", "MV X, {L}", "MV A, [{L}]", "MV [{L}], A",
       "defl {L}", "MV Y, {L}"]
DATA = ["defb 0x{b}", "defb 1, 2, 0x{b}", "defw 0x{w}", "defw 0x{w}, 0x{w}", "defl 0x{l}", "defl 0x{x}", "defl 0x{x}, 0x{l}",
        "defs {n}", "defm \"{t}\"", "defm \"{t}\"", "defm \"{e}\""]
NEAR = ("JP ", "JPZ ", "JPNZ ", "JPC ", "JPNC ", "CALL ")
# a label with a small value (defined within the first statements of a program that starts at origin 0) used where
# the operand is one byte: the displacement of [r3+n] / [(n)+d] forms and an 8-bit immediate
SMALL_SYM = ["MV A, [X+{S}]", "MV [Y-{S}], A", "MV A, [(0x10)+{S}]", "MV (0x20), [X+{S}]", "MV A, {S}", "ADD A, {S}"]
SMALL_LABEL = "L5"
# single-statement forms covering the assembler's operand syntax (every addressing mode of the internal
# memory, [r3] forms with increment/decrement/offset, [(n)] indirection, register pairs); the literals are
# re-drawn per use (same digit count; internal addresses stay below the named registers at 0xD4)
EXTRA_FORMS = [
    "ADC (0x10), 0x02", "ADC (0x30), A", "ADC A, (0x20)", "ADC A, 0x01", "ADCL (0x10), (0x20)", "ADCL (0x30), A",
    "ADD (0x10), 0x02", "ADD (0x30), A", "ADD A, (0x20)", "ADD A, (BP+0x50)", "ADD A, 0x01", "ADD A, IL",
    "ADD BA, I", "ADD X, Y", "CMP (0x10), 0x02", "CMP (0x30), A", "CMP (0x40), (0x50)", "CMP (BP+PY), A",
    "CMP A, 0x55", "CMP [0x12345], 0x02", "CMPP (0x10), (0x20)", "CMPP (0x40), X", "CMPW (0x10), (0x20)",
    "CMPW (0x30), BA", "DADL (0x10), (0x20)", "DADL (0x30), A", "DEC (0x20)", "DEC S", "DSBL (0x40), (0x50)",
    "DSBL (0x60), A", "DSLL (0x10)", "DSRL (0x20)", "EX (0x10), (0x20)", "EX (BP+0x10), (PY+0x20)", "EX X, Y",
    "EXL (0x70), (0x80)", "EXP (0x50), (0x60)", "EXW (0x30), (0x40)", "INC (0x10)", "INC (PX+0xEC)", "INC A",
    "JP (0x10)", "JP 0x1234", "JP S", "JPC 0x1234", "JPF 0xABCDE", "JPNC 0x1234", "JPNZ 0x1234", "JPZ 0x1234",
    "JR +0x05", "JR -0x02", "JRC +0x05", "JRC -0x02", "JRNC +0x05", "JRNC -0x02", "JRNZ +0x05", "JRNZ -0x02",
    "JRZ +0x05", "JRZ -0x02", "MV (0x10), (0x20)", "MV (0x10), A", "MV (0x10), [0x12345]", "MV (0x20), 0x55",
    "MV (0x20), [X]", "MV (0x30), [(0x40)]", "MV (BP+0x10), (PY+0x20)", "MV A, (0x10)", "MV A, 0x42", "MV A, [--Y]",
    "MV A, [0x12345]", "MV A, [S]", "MV A, [U]", "MV A, [X++]", "MV A, [X+4]", "MV A, [X]", "MV A, [Y]",
    "MV BA, 0x1234", "MV X, 0x12345", "MV [(0x40)], (0x30)", "MV [0x12345], (0x20)", "MV [0x12345], A",
    "MV [X], (0x20)", "MVP (0x20), 0x112233", "MVP (0x20), [X]", "MVP [X], (0x20)", "MVW (0x20), [X]",
    "MVW (0x30), (0x40)", "MVW (0x30), 0x1122", "MVW (0x30), [(0x40)]", "MVW (0x30), [0x12345]",
    "MVW [(0x40)], (0x30)", "MVW [X], (0x20)", "OR (0x10), 0x01", "OR (0x20), A", "OR (0x40), (0x50)",
    "OR A, (0x30)", "OR A, 0x55", "OR [0x12345], 0x02", "PMDF (0x70), 0x03", "PMDF (0x80), A", "ROL (0x11)",
    "ROL (BP+0x11)", "ROL (BP+PX)", "ROL (BP+PY)", "ROL (PX+0x11)", "ROL (PY+0x11)", "ROR (0x10)", "ROR (BP+0x10)",
    "ROR (BP+PX)", "ROR (BP+PY)", "ROR (PX+0x10)", "ROR (PY+0x10)", "SBC (0x10), 0x02", "SBC (0x30), A",
    "SBC A, (0x20)", "SBC A, 0x01", "SBCL (0x40), (0x50)", "SBCL (0x60), A", "SHL (0x13)", "SHL (BP+0x13)",
    "SHL (BP+PX)", "SHL (BP+PY)", "SHL (PX+0x13)", "SHL (PY+0x13)", "SHR (0x12)", "SHR (BP+0x12)", "SHR (BP+PX)",
    "SHR (BP+PY)", "SHR (PX+0x12)", "SHR (PY+0x12)", "SUB (0x10), 0x02", "SUB (0x30), A", "SUB A, (0x20)",
    "SUB A, 0x01", "SUB A, IL", "SUB BA, I", "SUB X, Y", "TEST (0x10), 0x01", "TEST (0x20), A", "TEST A, 0x55",
    "TEST [0x12345], 0x02", "XOR (0x10), 0x01", "XOR (0x20), A", "XOR (0x40), (0x50)", "XOR A, (0x30)",
    "XOR A, 0x55", "XOR [0x12345], 0x02",
]


def batches(tier: str) -> List[Batch]:
    if tier == "quick":
        return [Batch("hist", "py-asm", 240, 4)]
    return [Batch("hist", "py-asm", 30000, 20)]


def _vary(t: str, r: Rng) -> str:
    import re

    def sub(m):
        digits = len(m.group(1))
        before = t[max(0, m.start() - 4):m.start()]
        if digits == 2 and (before.endswith("(") or before.endswith("+")):
            return f"0x{r.below(0xD4):02X}"            # internal-memory offset
        if t.startswith(("JR", "JRZ", "JRNZ", "JRC", "JRNC")):
            return f"0x{r.range(1, 0x30):02X}"
        if digits == 5:
            return f"0x{r.below(0xFFFFC):05X}"
        return f"0x{r.below(1 << (4 * digits)):0{digits}X}"
    return re.sub(r"0x([0-9A-Fa-f]+)", sub, t)


def _fill(t: str, r: Rng) -> str:
    return (t.replace("{b}", f"{r.below(256):02X}").replace("{w}", f"{r.below(65536):04X}")
            .replace("{l}", f"{r.below(0x100000):05X}").replace("{x}", f"{r.below(0x1000000):06X}").replace("{i}", f"{r.below(0xD4):02X}")
            .replace("{r}", f"{r.below(100):02X}").replace("{n}", str(r.range(1, 9)))
            .replace("{t}", r.choice(["hi", "abc", "X", "hello!"]))
            # a string with backslashes: the assembler takes the characters between the quotes as they are
            .replace("{e}", r.choice(["a\\\\b", "tab\\tx", "nl\\n", "q\\\"q", "\\\\"])))


def _gen_program(r: Rng, good: bool, small_ok: bool = True) -> Dict[str, Any]:
    """A program as a list of statement dicts: {label?, text (with {L} unresolved), kind}."""
    n = r.choice([3, 8, 16, 40])
    labels = [f"L{i}" for i in range(r.range(1, 5))]
    stmts: List[Dict[str, Any]] = []
    used_sections = False
    # every .ORG target is used once and the targets are far apart, so statements never overlap
    org_pool = r.shuffle([0x100, 0x1800, 0x8000, 0xFF80, 0x10000, 0x1FF00, 0x20010, 0x2FFF0, 0x30800, 0x84000, 0x9000, 0x4000])
    org_zero_at = None
    if r.chance(1, 3):
        stmts.append({"text": f".ORG 0x{org_pool.pop():X}", "kind": "org"})
        if r.chance(1, 2):
            # the program starts elsewhere and comes back to origin 0 later (a vector stub after the main code);
            # 0x100 leaves the pool so that what follows `.ORG 0` cannot run into it
            org_pool = [o for o in org_pool if o != 0x100]
            org_zero_at = r.range(1, n)
    cur_sec = "code"
    zero_secs = set()
    for pos in range(n):
        if pos == org_zero_at and cur_sec not in zero_secs and cur_sec != "bss":
            zero_secs.add(cur_sec)
            stmts.append({"text": ".ORG 0x0" if r.chance(1, 2) else ".ORG 0", "kind": "org"})
        k = r.weighted([("nosym", 10), ("sym", 5), ("data", 4), ("section", 1), ("org", 1)])
        if k == "nosym":
            if r.chance(1, 2):
                stmts.append({"text": _vary(r.choice(EXTRA_FORMS), r), "kind": "ins"})
            else:
                stmts.append({"text": _fill(r.choice(NOSYM), r), "kind": "ins"})
        elif k == "sym":
            t = r.choice(SYM)
            if cur_sec == "bss" and t.startswith(NEAR):
                # bss reserves space only and is re-based after .data in pass two; page-local
                # transfers *inside* bss have no defined page and are not generated
                t = "MV X, {L}"
            stmts.append({"text": t.replace("{L}", r.choice(labels)), "kind": "ins"})
        elif k == "data":
            stmts.append({"text": _fill(r.choice(DATA), r), "kind": "data"})
        elif k == "section":
            cur_sec = r.choice(["data", "code", "bss", "data"])
            stmts.append({"text": "SECTION " + cur_sec, "kind": "section"})
            used_sections = True
        elif org_pool:
            stmts.append({"text": f".ORG 0x{org_pool.pop() + r.below(8):X}", "kind": "org"})
    # every label is defined exactly once, mostly on an instruction/data statement; the grammar
    # (line: label? statement?) also allows a label on a SECTION/.ORG line, whose address is
    # the location the directive establishes (where that line's next byte would go)
    cands = [i for i, s in enumerate(stmts) if s["kind"] in ("ins", "data")]
    dir_cands = [i for i, s in enumerate(stmts) if s["kind"] in ("org", "section")]
    if dir_cands and r.chance(1, 3):
        cands = cands + dir_cands
    if not cands:
        stmts.append({"text": "NOP", "kind": "ins"})
        cands = [len(stmts) - 1]
    for lb in labels:
        i = r.choice(cands)
        if "label" not in stmts[i]:
            stmts[i]["label"] = lb
        else:
            stmts.append({"text": "NOP", "kind": "ins", "label": lb})
    if small_ok and stmts and stmts[0]["kind"] in ("ins", "data") and r.chance(1, 3):
        early = [i for i in range(min(3, len(stmts))) if stmts[i]["kind"] in ("ins", "data") and "label" not in stmts[i]
                 and all(st["kind"] in ("ins", "data") for st in stmts[:i + 1])]
        if early:
            stmts[r.choice(early)]["label"] = SMALL_LABEL
            for _ in range(r.range(1, 2)):
                pos = r.range(0, len(stmts))
                stmts.insert(pos, {"text": r.choice(SMALL_SYM).replace("{S}", SMALL_LABEL), "kind": "ins"})
    if good and org_pool and cur_sec != "bss" and r.chance(1, 8):
        # a page-local transfer placed at a fresh origin: same page as its label or another one
        # (page 0 <-> page N and page N <-> page M), so that the page rule is exercised in every direction
        stmts.append({"text": f".ORG 0x{org_pool.pop() + r.below(8):X}", "kind": "org"})
        stmts.append({"text": r.choice(NEAR) + r.choice(labels), "kind": "ins"})
    rp = r.child("pageend")
    if good and cur_sec != "bss" and rp.chance(1, 6):
        # a page-local transfer whose bytes end at (or run over) a 64 KiB boundary: its page is the page of its own
        # first byte; a label on that page is accepted, one on the page that follows is not
        page = rp.choice([0x40000, 0x50000])
        same = rp.chance(1, 2)
        stmts.append({"text": f".ORG 0x{page + 0xF000 if same else page + 0x10010:X}", "kind": "org"})
        stmts.append({"text": "NOP", "kind": "ins", "label": "L6"})
        stmts.append({"text": f".ORG 0x{page + rp.choice([0xFFFD, 0xFFFD, 0xFFFE, 0xFFFF]):X}", "kind": "org"})
        stmts.append({"text": rp.choice(NEAR) + "L6", "kind": "ins"})
    rcs = r.child("customsec")
    custom_section = False
    if good and rcs.chance(1, 8):
        # a section with a name of the user's own (the grammar takes any name): either the assembler turns it down, or
        # what it lays out there obeys the same laws as everywhere else
        custom_section = True
        stmts.append({"text": "SECTION " + rcs.choice(["rodata", "tables", "vectors"]), "kind": "section"})
        stmts.append({"text": _fill(rcs.choice(["defb 0x{b}", "defw 0x{w}", "NOP"]), rcs), "kind": "data", "label": "L9"})
        stmts.append({"text": rcs.choice(["defl L9", "MV X, L9", "JPF L9"]), "kind": "ins"})
        cur_sec = "custom"
    ro = r.child("symorg")
    if good and cur_sec != "bss" and ro.chance(1, 6):
        # an origin given by a label that is already defined (the grammar's `.ORG expression` takes a name): a table
        # area is named first, code goes elsewhere, and the program comes back to the named place with `.ORG L7`
        a7 = ro.choice([0x5000, 0x35000, 0x6F000]) + 0x10 * ro.below(8)
        stmts.append({"text": f".ORG 0x{a7:X}", "kind": "org", "label": "L7"})
        stmts.append({"text": f".ORG 0x{a7 + 0x400:X}", "kind": "org", "glue": True})   # nothing is placed at L7 before the return
        stmts.append({"text": _fill(ro.choice(NOSYM), ro), "kind": "ins"})
        stmts.append({"text": ".ORG L7", "kind": "org"})
        stmts.append({"text": "NOP", "kind": "ins", "label": "L8"})
        stmts.append({"text": ro.choice(["JP L8", "MV X, L8", "defl L8", "CALL L8"]), "kind": "ins"})
    # the grammar is `start: (line | NEWLINE)*` with `line: label? statement?`: nothing requires a line break between
    # two statements.  One program in four puts two or three instructions on one source line (the first ones without
    # operands, so that the split between them is unambiguous)
    rs = r.child("sameline")
    if rs.chance(1, 4):
        # never in front of a leading .ORG (the program may come back to origin 0 later)
        pos = rs.range(1 if stmts and stmts[0]["kind"] == "org" else 0, len(stmts))
        if pos < len(stmts) and stmts[pos].get("glue"):
            pos += 1
        group = [{"text": rs.choice(["NOP", "RET", "SC", "RC", "HALT", "TCL", "RETF"]), "kind": "ins"}]
        if rs.chance(1, 3):
            group.append({"text": rs.choice(["NOP", "SC", "RC", "WAIT"]), "kind": "ins", "same_line": True})
        group.append({"text": _fill(rs.choice(NOSYM), rs), "kind": "ins", "same_line": True})
        stmts[pos:pos] = group
    fault = None
    if not good:
        fault = r.choice(["parse", "dup_label", "undef", "undef"])
        if fault == "parse":
            stmts.insert(r.below(len(stmts) + 1), {"text": "FROB A, 1", "kind": "bad"})
        elif fault == "dup_label":
            stmts.append({"text": "NOP", "kind": "ins", "label": labels[0]})
        else:
            stmts.insert(r.below(len(stmts) + 1), {"text": "JP NOWHERE", "kind": "ins"})
    rn = r.child("imemname")
    if rn.chance(1, 6):
        # a label may be called like an internal-memory register; it is still a label
        alias = rn.choice(["ISR", "IMR", "KOL", "UCR", "LCC"])
        for st in stmts:
            st["text"] = st["text"].replace("L0", alias)
            if st.get("label") == "L0":
                st["label"] = alias
    return {"stmts": stmts, "good": good, "fault": fault, "custom_section": custom_section}


def _source(prog: Dict[str, Any]) -> str:
    lines = []
    for s in prog["stmts"]:
        if s.get("same_line") and lines:
            lines[-1] += "  " + s["text"]
            continue
        lines.append((s["label"] + ": " if "label" in s else "    ") + s["text"])
    return "\n".join(lines) + "\n"


def generate(batch: str, r: Rng, idx: int, tier: str) -> Dict[str, Any]:
    rb = r.child("bases")
    bases = None
    if rb.chance(1, 5):
        # a configured section layout (an instance override of the base-address table): both passes, and labels as
        # well as bytes, must follow it
        bases = {"code": rb.choice([0x00000, 0x00400, 0x21000]), "text": 0, "data": rb.choice([0x80000, 0x70000, 0x81000]),
                 "bss": rb.choice([0x90000, 0xA0000])}
        bases["text"] = bases["code"]
    small_ok = bases is None or bases["code"] == 0      # small-valued labels rely on the default origin 0
    calls = []
    for i in range(r.range(2, 8)):
        good = r.chance(3, 5) or i == 0
        prog = _gen_program(r.child("prog", i), good, small_ok)
        calls.append({"obj": r.below(2), "prog": prog, "src": _source(prog)})
    calls.append({"obj": r.below(2), "prog": (p := _gen_program(r.child("last"), True, small_ok)), "src": _source(p)})
    scn = {"kind": "asm", "exec": "py-asm", "calls": calls}
    if bases:
        scn["bases"] = bases
    return scn


# ----------------------------------------------------------------------------------------


def _assemble(asm, src: str) -> Dict[str, Any]:
    from sc62015.pysc62015.sc_asm import AssemblerError
    try:
        bf = asm.assemble(src)
        return {"ok": True, "segs": [[int(s.address), list(bytes(s.data))] for s in bf.segments],
                "symbols": dict(sorted(asm.symbols.items()))}
    except AssemblerError as e:
        return {"ok": False, "err": "AssemblerError", "msg": str(e)[:200]}
    except Exception as e:
        return {"ok": False, "err": type(e).__name__, "msg": str(e)[:200]}


def execute(scn: Dict[str, Any]) -> Dict[str, Any]:
    """Every scenario runs in a forked child of the worker, which itself never assembles anything: whatever a call leaves
    behind in process-wide state (operand templates, caches keyed by source text) is then part of *this* scenario's
    history only, and a replay in a fresh process sees exactly what the worker saw.  The reference interpreter is asked
    by the parent afterwards."""
    import json as _json
    import os as _os
    rfd, wfd = _os.pipe()
    pid = _os.fork()
    if pid == 0:
        code = 0
        try:
            _os.close(rfd)
            try:
                out = _execute_here(scn)
                payload = _json.dumps({"ok": out}).encode()
            except BaseException as e:      # reported to the parent, which raises it as a harness error
                payload = _json.dumps({"exc": f"{type(e).__name__}: {e}"[:500]}).encode()
            with _os.fdopen(wfd, "wb") as w:
                w.write(payload)
        except BaseException:
            code = 1
        finally:
            _os._exit(code)
    _os.close(wfd)
    chunks = []
    with _os.fdopen(rfd, "rb") as rd:
        while True:
            b = rd.read(1 << 16)
            if not b:
                break
            chunks.append(b)
    _os.waitpid(pid, 0)
    from ..rshost import HarnessError
    try:
        msg = _json.loads(b"".join(chunks))
    except Exception:
        raise HarnessError("C10 scenario child died without an answer")
    if "exc" in msg:
        raise HarnessError("C10 scenario child: " + msg["exc"])
    out = msg["ok"]
    for call, rec in zip(scn["calls"], out["calls"]):
        if rec["res"]["ok"]:
            rec["ref"] = ref().assemble(call["src"], scn.get("bases"))
    return out


def _execute_here(scn: Dict[str, Any]) -> Dict[str, Any]:
    from sc62015.pysc62015.sc_asm import Assembler
    bases = scn.get("bases")

    def new_asm():
        a = Assembler()
        if bases:
            a.SECTION_BASE_ADDRESSES = dict(bases)
        return a

    objs = [new_asm(), new_asm()]
    out = []
    for call in scn["calls"]:
        res = _assemble(objs[call["obj"]], call["src"])
        rec: Dict[str, Any] = {"res": res}
        if res["ok"]:
            rec["again"] = _assemble(objs[call["obj"]], call["src"])
            rec["fresh"] = _assemble(new_asm(), call["src"])
            rec["model"] = _model(call["prog"], res.get("symbols") or {}, bases)
        out.append(rec)
    return {"calls": out}


def _model(prog: Dict[str, Any], symbols: Dict[str, int], bases: Optional[Dict[str, int]] = None) -> Dict[str, Any]:
    """Compositional layout: walk the statements with per-section pointers; each statement assembled alone at its
    address with symbols replaced by their values must give its bytes."""
    from sc62015.pysc62015.sc_asm import Assembler
    base = dict(bases) if bases else {"code": 0x00000, "text": 0x00000, "data": 0x80000, "bss": 0x90000}
    # pass A: sizes (from standalone assembly with symbols replaced by a same-width dummy), label addresses
    ptr = dict(base)
    cur = "code"
    placed: List[Tuple[int, int, str, Dict[str, Any]]] = []
    labels: Dict[str, int] = {}
    sizes: List[int] = []
    for s in prog["stmts"]:
        if s["kind"] == "section":
            name = s["text"].split()[1].lower()
            if name not in ptr:
                ptr[name] = max(ptr.values())
            cur = name
            if "label" in s:
                labels[s["label"].upper()] = ptr[cur]
            continue
        if s["kind"] == "org":
            arg = s["text"].split()[1]
            try:
                ptr[cur] = int(arg, 0)
            except ValueError:
                if arg.upper() not in labels:
                    return {"error": f".ORG {arg}: label not defined before the directive"}
                ptr[cur] = labels[arg.upper()]      # an origin named by an already defined label
            if "label" in s:
                labels[s["label"].upper()] = ptr[cur]
            continue
        addr = ptr[cur]
        if "label" in s:
            labels[s["label"].upper()] = addr
        text = s["text"]
        probe_text = text
        probe_text = probe_text.replace(SMALL_LABEL, "0x10")
        for lb in ("L0", "L1", "L2", "L3", "L4", "L6", "L7", "L8", "L9", "ISR", "IMR", "KOL", "UCR", "LCC"):
            probe_text = probe_text.replace(lb, f"0x{addr & 0xF0000 | 0x10:X}")
        try:
            # a page-local transfer is encoded the same anywhere on its page: its reference encoding is taken in the
            # middle of the page, so that what the assembler does at a page's last bytes is judged, not assumed
            ref_addr = (addr & 0xF0000) | 0x8000 if text.startswith(NEAR) else addr
            size = len(_standalone(ref_addr, probe_text))
            if text.lower().startswith("defs"):
                size = int(text.split()[1])
        except Exception as e:
            return {"error": f"standalone assembly of {text!r} failed: {e}"[:200]}
        placed.append((addr, size, cur, s))
        ptr[cur] += size
    if "data" in ptr and "bss" in ptr:
        pass
    # pass B: bytes with the real label values
    mem: Dict[int, int] = {}
    cross_page = None
    data_expect: List[Tuple[int, str, List[int]]] = []
    for addr, size, sec, s in placed:
        if s["kind"] == "data" or s["text"].lower().startswith("defl "):
            exp = _expected_data(s["text"], labels)
            if exp is not None and sec != "bss":
                data_expect.append((addr, s["text"], list(exp)))
        text = s["text"]
        for lb, val in labels.items():
            if lb in text:
                if text.startswith(NEAR) and (val & 0xF0000) != (addr & 0xF0000):
                    cross_page = text
                text = text.replace(lb, f"0x{val:X}")
        if cross_page:
            break
        try:
            data = _standalone((addr & 0xF0000) | 0x8000 if s["text"].startswith(NEAR) else addr, text)
        except Exception as e:
            return {"error": f"standalone assembly of {text!r} failed: {e}"[:200]}
        if sec == "bss":
            continue
        for i, b in enumerate(data):
            mem[addr + i] = b
    return {"labels": labels, "mem": sorted(mem.items()), "cross_page": cross_page, "data": data_expect}


def _expected_data(text: str, labels: Dict[str, int]) -> Optional[bytes]:
    """What a data directive emits, computed here and not by the assembler: little-endian values of 1/2/3
    bytes (truncated to the directive's width), zero fill, or the characters of a string."""
    parts = text.strip().split(None, 1)
    if len(parts) != 2:
        return None
    kind, rest = parts[0].lower(), parts[1].strip()
    if kind == "defs":
        return bytes(int(rest, 0))
    if kind == "defm":
        if rest.startswith('"') and rest.endswith('"'):
            return rest[1:-1].encode("latin-1")
        return None
    width = {"defb": 1, "defw": 2, "defl": 3}.get(kind)
    if width is None:
        return None
    out = bytearray()
    for item in rest.split(","):
        item = item.strip()
        if item.upper() in labels:
            v = labels[item.upper()]
        else:
            try:
                v = int(item, 0)
            except ValueError:
                return None
        out += (v & ((1 << (8 * width)) - 1)).to_bytes(width, "little")
    return bytes(out)


_STANDALONE: Dict[Tuple[int, str], Any] = {}


def _standalone(addr: int, text: str) -> bytes:
    """One statement assembled alone at its address by a fresh Assembler (memoised per process: the
    result is a function of (address, text) — that it is, is what the `residue` oracle checks on the
    real calls)."""
    key = (addr, text)
    hit = _STANDALONE.get(key)
    if hit is None:
        from sc62015.pysc62015.sc_asm import Assembler
        try:
            bf = Assembler().assemble(f".ORG 0x{addr:X}\n    {text}\n")
            hit = b"".join(bytes(seg.data) for seg in bf.segments)
        except Exception as e:
            hit = e
        if len(_STANDALONE) > 20000:
            _STANDALONE.clear()
        _STANDALONE[key] = hit
    if isinstance(hit, Exception):
        raise hit
    return hit


def _flatten(segs) -> List[Tuple[int, int]]:
    mem: Dict[int, int] = {}
    for addr, data in segs:
        for i, b in enumerate(data):
            mem[addr + i] = b
    return sorted(mem.items())


def check(scn: Dict[str, Any], hist: Dict[str, Any]) -> List[Dict[str, Any]]:
    viols: List[dict] = []
    probes: Dict[str, int] = {}
    hist["_probes"] = probes
    seen_fail = False
    used = set()

    def V(cls, i, msg, **where):
        viols.append({"cls": cls, "executor": "py-asm", "where": where, "msg": f"call {i}: {msg}", "at": i})

    def probe(n):
        probes[n] = probes.get(n, 0) + 1

    for i, (call, rec) in enumerate(zip(scn["calls"], hist["calls"])):
        res = rec["res"]
        prog = call["prog"]
        if call["obj"] in used:
            probe("object_reused")
        used.add(call["obj"])
        if not res["ok"]:
            seen_fail = True
            if res["err"] != "AssemblerError":
                V("unexpected_exception", i, f"assemble raised {res['err']}: {res['msg']}", err=res["err"])
            if prog["fault"] == "parse":
                probe("aborted_parse")
            elif prog["fault"] == "dup_label":
                probe("aborted_pass1")
            elif prog["fault"]:
                probe("aborted_pass2")
            if prog["good"] and prog.get("custom_section") and "section" in res["msg"].lower():
                probe("custom_section_rejected")      # turned down as a whole: nothing was laid out
            elif prog["good"]:
                # a program meant to be good was rejected: only acceptable for a cross-page near transfer
                m = _model(prog, {}, scn.get("bases"))
                if m.get("cross_page"):
                    probe("cross_page_rejected")
                elif "error" not in m:
                    V("rejected_wellformed", i, f"well-formed program rejected: {res['msg']}")
            continue
        if not prog["good"] and prog["fault"]:
            V("accepted_illformed", i, f"program with injected fault '{prog['fault']}' assembled without error", fault=prog["fault"])
            continue
        mine = _flatten(res["segs"])
        if rec["again"].get("ok") is not True or _flatten(rec["again"]["segs"]) != mine:
            V("nondeterministic", i, "the same assemble() call repeated on the same object gave a different result")
        if rec["fresh"].get("ok") is not True or _flatten(rec["fresh"]["segs"]) != mine:
            V("residue", i, f"result differs from a fresh Assembler object (after {'a failed call' if seen_fail else 'earlier calls'})",
              against="fresh_object", after_failure=seen_fail)
        if rec["ref"].get("ok") is not True or _flatten(rec["ref"]["segs"]) != mine:
            V("residue", i, "result differs from the reference interpreter", against="reference_process", after_failure=seen_fail)
        m = rec["model"]
        if "error" in m:
            continue
        if m.get("cross_page"):
            V("cross_page_accepted", i, f"page-local transfer to another 64 KiB page was accepted: {m['cross_page']}")
            continue
        texts = [s["text"] for s in prog["stmts"]]
        if any(t.startswith("SECTION") for t in texts):
            probe("sections")
        if any(t.startswith(".ORG") for t in texts):
            probe("org")
        if ".ORG L7" in texts:
            probe("org_by_label")
        if any(t.lower() == "section bss" for t in texts):
            probe("bss")
        if any(st["kind"] in ("org", "section") and "label" in st for st in prog["stmts"]):
            probe("label_on_directive")
        syms = res.get("symbols") or {}
        for lb, val in m["labels"].items():
            if syms.get(lb) != val:
                V("label_value", i, f"label {lb} = {syms.get(lb)}, layout model says {val:#x}", label=lb)
                break
        got = dict(mine)
        for addr, text, exp in m.get("data", []):
            have = [got.get(addr + i) for i in range(len(exp))]
            if have != exp:
                V("data_encoding", i, f"{text!r} at {addr:#x} emitted {have}, the directive's values are {exp}",
                  directive=text.split()[0].lower())
                break
        order = [s.get("label") for s in prog["stmts"]]
        if [tuple(x) for x in m["mem"]] != [tuple(x) for x in mine]:
            a = dict((x[0], x[1]) for x in m["mem"])
            b = dict(mine)
            diff = sorted(k for k in set(a) | set(b) if a.get(k) != b.get(k))
            V("placement", i, f"emitted bytes differ from the composition of standalone statements at {len(diff)} addresses, "
              f"first {diff[0]:#x}: model {a.get(diff[0])} actual {b.get(diff[0])}")
        for s_idx, s in enumerate(prog["stmts"]):
            for lb in m["labels"]:
                if lb in s["text"] and s["kind"] in ("ins", "data"):
                    defined_before = any(st.get("label", "").upper() == lb for st in prog["stmts"][:s_idx + 1])
                    probe("backward_ref" if defined_before else "forward_ref")
    return viols


def stats(scn: Dict[str, Any], hist: Dict[str, Any]) -> Dict[str, Any]:
    probes = dict(hist.get("_probes") or {})
    fails = probes.get("aborted_parse", 0) + probes.get("aborted_pass1", 0) + probes.get("aborted_pass2", 0)
    nontrivial = (fails > 0 and hist["calls"][-1]["res"].get("ok")) or probes.get("object_reused", 0) > 0
    return {"nontrivial": bool(nontrivial), "sig": digest([c["src"] for c in scn["calls"]] + [c["obj"] for c in scn["calls"]]),
            "faults": {"aborted_call": fails}, "probes": probes, "cycles": 0, "boundaries": len(scn["calls"])}


def sample(scn: Dict[str, Any], hist: Dict[str, Any]) -> Dict[str, Any]:
    return {"calls": [{"obj": c["obj"], "src": c["src"][:300], "ok": r["res"]["ok"], "err": r["res"].get("msg")}
                      for c, r in zip(scn["calls"][:3], hist["calls"][:3])]}


def shrink(scn: Dict[str, Any]):
    calls = scn["calls"]
    for i in range(len(calls) - 1):
        c = copy.deepcopy(scn)
        del c["calls"][i]
        yield c
    for i, call in enumerate(calls):
        st = call["prog"]["stmts"]
        for j in range(len(st)):
            if len(st) <= 1:
                break
            if st[j]["kind"] == "org":
                continue       # origins keep the statements apart: without one the program may overlap itself (not well formed)
            c = copy.deepcopy(scn)
            del c["calls"][i]["prog"]["stmts"][j]
            c["calls"][i]["src"] = _source(c["calls"][i]["prog"])
            yield c
