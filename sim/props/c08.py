"""C08 — register aliasing, widths and flag packing hold after any sequence of writes.

Seeded histories of register writes by name (arbitrary 32-bit values biased to width
boundaries), reads, flag writes and snapshot->apply round trips into a *fresh* register
file run on the Python Registers and the Rust LlamaState; a bit-vector model written from
the statement is checked read by read on each, and the two are compared with each other.
"""
from __future__ import annotations

import copy
from typing import Any, Dict, List

from ..rng import Rng
from ..rshost import host
from ..runner import Batch, digest

ID = "C08"
TITLE = "Register aliasing, widths and flag packing hold after any sequence of writes"
RULE = ("one run = 20-200 operations over A,B,BA,IL,IH,I,X,Y,U,S,PC,F,FC,FZ and TEMP0-13: write name <- 32-bit value "
        "(biased to 0, 0xFF, 0x100, 0xFFFF, 0x10000, 0xFFFFF, 0x100000, 0xFFFFFF, 0xFFFFFFFF), read name, snapshot->apply "
        "to a fresh register file (Python CPURegistersSnapshot; Rust collect->apply and collect->pack->unpack->apply); "
        "non-trivial = at least one overlapping-register write followed by a read of the other view and one restart; "
        "distinct = distinct history hash")
SCHEDULE_MEASURE = "distinct operation-history hashes"
COMPONENTS = {
    "real": ["sc62015/pysc62015/emulator.py Registers.get/set/get_flag/set_flag",
             "sc62015/pysc62015/stepper.py CPURegistersSnapshot.from_registers/apply_to",
             "sc62015/pysc62015/cpu.py CPU facade: regs, snapshot_registers, apply_snapshot (python backend)",
             "sc62015/core/src/lib.rs CoreRuntime::set_reg/get_reg (string-keyed)",
             "sc62015/core/src/llama/state.rs LlamaState::{set_reg,get_reg}",
             "sc62015/core/src/lib.rs collect_registers/apply_registers", "sc62015/core/src/snapshot.rs pack/unpack_registers"],
    "stub": [],
}
ASSUMPTIONS = ["IMR as a Rust pseudo-register and unknown register names are not part of the property"]
PROBES = ["il_write_clears_ih", "alias_read_after_write", "truncation", "restart_py", "restart_rs_pack", "flag_via_f", "f_via_flag",
          "temp_write", "snapshot_discarded", "api_cpu_runtime", "api_cpu_state", "api_regs_runtime", "api_regs_state", "api_machine_bundle", "bystander_write"]

NAMES = ["A", "B", "BA", "IL", "IH", "I", "X", "Y", "U", "S", "PC", "F", "FC", "FZ"]
TEMPS = [f"TEMP{i}" for i in range(14)]
VALUES = [0, 1, 0x7F, 0x80, 0xFF, 0x100, 0x1FF, 0xFFFF, 0x10000, 0x7FFFF, 0xFFFFF, 0x100000, 0xFFFFFF, 0x1000000,
          0xFFFFFFFF, 0x80000000, 0xAAAAAAAA, 0x55555555, 0x12345678]


def batches(tier: str) -> List[Batch]:
    if tier == "quick":
        return [Batch("hist", "py+rs-regs", 60000, 500), Batch("bundle", "py+rs-regs", 480, 10)]
    return [Batch("hist", "py+rs-regs", 6000000, 2000), Batch("bundle", "py+rs-regs", 30000, 30)]


def generate(batch: str, r: Rng, idx: int, tier: str) -> Dict[str, Any]:
    n = r.choice([20, 50, 100, 200]) if batch != "bundle" else r.choice([12, 30])
    ops: List[list] = []
    while len(ops) < n:
        k = r.weighted([("set", 10), ("get", 8), ("restart", 1), ("sweep", 1), ("peek", 1), ("noise", 2)])
        if k == "set":
            name = r.choice(NAMES + NAMES + TEMPS[:4]) if r.chance(4, 5) else r.choice(TEMPS)
            v = r.choice(VALUES) if r.chance(1, 2) else r.below(1 << 32)
            ops.append(["set", name, v])
            # read back an overlapping view right away in half of the cases
            if r.chance(1, 2):
                other = {"A": "BA", "B": "BA", "BA": r.choice(["A", "B"]), "IL": r.choice(["IH", "I"]), "IH": "I",
                         "I": r.choice(["IL", "IH"]), "F": r.choice(["FC", "FZ"]), "FC": "F", "FZ": "F"}.get(name, name)
                ops.append(["get", other])
        elif k == "get":
            ops.append(["get", r.choice(NAMES + TEMPS[:3]) if r.chance(3, 4) else r.choice(TEMPS)])
        elif k == "noise":
            # a write to *another* register file that is alive in the same process (a second CPU, the file a snapshot was
            # taken from before the restart): it must not show in the file under test
            ops.append(["noise", r.choice(NAMES + TEMPS + TEMPS), r.choice(VALUES) if r.chance(1, 2) else r.below(1 << 32)])
        elif k == "peek":
            ops.append(["peek"])       # a snapshot taken and thrown away; the register file lives on and is written again
        elif k == "restart":
            ops.append(["restart", r.choice(["apply", "pack"])])
            if r.chance(1, 2):
                # read the whole register file back right after the restore
                for name in NAMES + TEMPS:
                    ops.append(["get", name])
        else:
            for name in NAMES:
                ops.append(["get", name])
    # which interface carries the history: the register files themselves, or the objects a machine holds them in —
    # the CPU facade (cpu.regs, snapshot_registers / apply_snapshot) and CoreRuntime's string-keyed set_reg / get_reg
    ra = r.child("api")
    if batch == "bundle" and r.child("chain").chance(1, 3):
        # a chain of restarts: a register restored from a bundle is written again (to zero as well) before the next
        # bundle is taken from the restored machine — the second bundle must carry the new value, not the first one's
        rc = r.child("chain-ops")
        pre: List[list] = []
        picks = rc.sample(TEMPS, 3) + rc.sample(["BA", "I", "X", "Y", "U", "S"], 2)
        for name in picks:
            pre.append(["set", name, rc.range(1, 0xFFFF)])
        pre.append(["restart", "apply"])
        for name in picks:
            pre.append(["set", name, 0 if rc.chance(2, 3) else rc.range(1, 0xFFFF)])
        pre.append(["restart", "apply"])
        for name in picks + TEMPS:
            pre.append(["get", name])
        ops = pre + ops
    if batch == "bundle":
        # the register file inside a whole machine; a restart is the real bundle on disk (save_snapshot -> a freshly
        # constructed machine's load_snapshot) on both sides
        return {"kind": "regs", "exec": "py+rs-regs", "ops": ops, "py_api": "machine", "rs_api": "bundle"}
    return {"kind": "regs", "exec": "py+rs-regs", "ops": ops, "py_api": ra.choice(["regs", "cpu"]),
            "rs_api": ra.choice(["state", "runtime"])}


def _run_py_machine(scn: Dict[str, Any]) -> List[Any]:
    import os
    from pce500.emulator import PCE500Emulator
    from sc62015.pysc62015.emulator import RegisterName
    from .. import machine

    def new_emu():
        return PCE500Emulator(save_lcd_on_exit=False, perfetto_trace=False)

    emu = new_emu()
    regs = emu.cpu.regs
    for nm in ("BA", "I", "X", "Y", "U", "S", "PC", "F"):
        regs.set(RegisterName[nm], 0)
    for i in range(14):
        regs.set(RegisterName[f"TEMP{i}"], 0)
    out: List[Any] = []
    path = os.path.join(machine.scratch_dir(), f"regs-{os.getpid()}.pcsnap")
    from sc62015.pysc62015.emulator import Registers
    by = Registers()
    for op in scn["ops"]:
        if op[0] == "noise":
            by.set(RegisterName[op[1]], op[2])
            out.append(None)
        elif op[0] == "peek":
            emu.cpu.snapshot_registers()
            out.append(None)
        elif op[0] == "restart":
            emu.save_snapshot(path)
            by = emu.cpu.regs          # the machine that was saved stays around as the bystander
            emu = new_emu()
            try:
                machine.quiet_load(emu, path)
            finally:
                try:
                    os.remove(path)
                except OSError:
                    pass
            regs = emu.cpu.regs
            out.append(None)
        elif op[0] == "set":
            regs.set(RegisterName[op[1]], op[2])
            out.append(None)
        else:
            out.append(regs.get(RegisterName[op[1]]))
    return out


def _run_py(scn: Dict[str, Any]) -> List[Any]:
    from sc62015.pysc62015.emulator import Registers, RegisterName
    from sc62015.pysc62015.stepper import CPURegistersSnapshot
    facade = scn.get("py_api") == "cpu"
    if scn.get("py_api") == "machine":
        return _run_py_machine(scn)

    def new_cpu():
        from binja_test_mocks.eval_llil import Memory
        from sc62015.pysc62015.cpu import CPU
        return CPU(Memory(lambda a: 0, lambda a, v: None), reset_on_init=False, backend="python")

    cpu = new_cpu() if facade else None
    regs = cpu.regs if facade else Registers()
    if facade:
        for nm in ("BA", "I", "X", "Y", "U", "S", "PC", "F"):
            regs.set(RegisterName[nm], 0)
    out: List[Any] = []
    by = new_cpu().regs if facade else Registers()
    for op in scn["ops"]:
        if op[0] == "noise":
            by.set(RegisterName[op[1]], op[2])
            out.append(None)
        elif op[0] == "peek":
            if facade:
                cpu.snapshot_registers()
            else:
                CPURegistersSnapshot.from_registers(regs)
            out.append(None)
        elif op[0] == "restart" and facade:
            snap = cpu.snapshot_registers()
            by = regs                  # the file the snapshot came from lives on as the bystander
            cpu = new_cpu()
            cpu.apply_snapshot(snap)
            regs = cpu.regs
            out.append(None)
        elif op[0] == "set":
            if op[1] in ("FC", "FZ") and (len(out) % 2):
                regs.set_flag(op[1][1], op[2])      # same register through the flag interface
            else:
                regs.set(RegisterName[op[1]], op[2])
            out.append(None)
        elif op[0] == "get":
            if op[1] in ("FC", "FZ") and (len(out) % 2):
                out.append(regs.get_flag(op[1][1]))
            else:
                out.append(regs.get(RegisterName[op[1]]))
        else:
            snap = CPURegistersSnapshot.from_registers(regs)
            fresh = Registers()
            snap.apply_to(fresh)
            by = regs                  # the file the snapshot came from lives on as the bystander
            regs = fresh
            out.append(None)
    return out


def execute(scn: Dict[str, Any]) -> Dict[str, Any]:
    rs_ops = []
    for op in scn["ops"]:
        if op[0] == "restart":
            rs_ops.append(["roundtrip"] if op[1] == "pack" else ["apply"])
        elif op[0] == "noise":
            rs_ops.append(["peek"])     # the bystander is a Python-side object; the Rust script keeps its op index
        else:
            rs_ops.append(op)
    extra = []
    if scn.get("rs_api") == "bundle":
        import os
        from .. import machine
        extra = [os.path.join(machine.scratch_dir(), f"regs-rs-{os.getpid()}.pcsnap")]
    rs = host().call([["r.script", rs_ops, scn.get("rs_api", "state")] + extra])[0]
    return {"py": _run_py(scn), "rs": rs}


class _Model:
    def __init__(self):
        self.v = {"BA": 0, "I": 0, "X": 0, "Y": 0, "U": 0, "S": 0, "PC": 0, "F": 0}
        self.t = {n: 0 for n in TEMPS}

    def set(self, name: str, val: int) -> None:
        val &= 0xFFFFFFFF
        if name in ("BA", "I"):
            self.v[name] = val & 0xFFFF
        elif name in ("X", "Y", "U", "S", "PC"):
            self.v[name] = val & 0xFFFFF
        elif name == "F":
            self.v["F"] = val & 0xFF
        elif name == "A":
            self.v["BA"] = (self.v["BA"] & 0xFF00) | (val & 0xFF)
        elif name == "B":
            self.v["BA"] = (self.v["BA"] & 0x00FF) | ((val & 0xFF) << 8)
        elif name == "IL":
            self.v["I"] = val & 0xFF                      # a write to IL clears IH
        elif name == "IH":
            self.v["I"] = (self.v["I"] & 0x00FF) | ((val & 0xFF) << 8)
        elif name == "FC":
            self.v["F"] = (self.v["F"] & ~1) | (val & 1)
        elif name == "FZ":
            self.v["F"] = (self.v["F"] & ~2) | ((val & 1) << 1)
        else:
            self.t[name] = val & 0xFFFFFF

    def get(self, name: str) -> int:
        if name in self.v:
            return self.v[name]
        if name == "A":
            return self.v["BA"] & 0xFF
        if name == "B":
            return self.v["BA"] >> 8
        if name == "IL":
            return self.v["I"] & 0xFF
        if name == "IH":
            return self.v["I"] >> 8
        if name == "FC":
            return self.v["F"] & 1
        if name == "FZ":
            return (self.v["F"] >> 1) & 1
        return self.t[name]


def check(scn: Dict[str, Any], hist: Dict[str, Any]) -> List[Dict[str, Any]]:
    viols: List[dict] = []
    probes: Dict[str, int] = {}
    hist["_probes"] = probes

    def probe(n):
        probes[n] = probes.get(n, 0) + 1

    m = _Model()
    last_set = None
    restarted = False
    flagged = set()
    for i, op in enumerate(scn["ops"]):
        if op[0] == "set":
            before_ih = m.get("IH")
            m.set(op[1], op[2])
            last_set = op[1]
            if op[1] == "IL" and before_ih:
                probe("il_write_clears_ih")
            if op[1].startswith("TEMP"):
                probe("temp_write")
            if op[1] == "F":
                probe("flag_via_f")
            if op[1] in ("FC", "FZ"):
                probe("f_via_flag")
            if op[2] > 0xFFFFFF:
                probe("truncation")
            continue
        if op[0] == "noise":
            probe("bystander_write")
            continue
        if op[0] == "peek":
            probe("snapshot_discarded")
            continue
        if op[0] == "restart":
            restarted = True
            probe("restart_rs_pack" if op[1] == "pack" else "restart_py")
            probe("api_" + scn.get("py_api", "regs") + "_" + scn.get("rs_api", "state"))
            if op[1] == "pack":
                blob = hist["rs"][i]
                exp = []
                for nm, w in (("PC", 3), ("BA", 2), ("I", 2), ("X", 3), ("Y", 3), ("U", 3), ("S", 3), ("F", 1)):
                    val = m.get(nm)
                    exp += [(val >> (8 * k)) & 0xFF for k in range(w)]
                if blob != exp and "blob" not in flagged:
                    flagged.add("blob")
                    viols.append({"cls": "blob_layout", "executor": "rs-regs", "where": {},
                                  "msg": f"op {i}: packed register blob {blob} differs from the documented layout {exp}", "at": i})
            continue
        name = op[1]
        want = m.get(name)
        if last_set and last_set != name:
            probe("alias_read_after_write")
        gp, gr = hist["py"][i], hist["rs"][i]
        for ex, got in (("py-regs", gp), ("rs-regs", gr)):
            if got != want and (ex, name) not in flagged:
                flagged.add((ex, name))
                cls = "restart_loses" if restarted and _since_restart_unwritten(scn["ops"], i, name) else "read_mismatch"
                viols.append({"cls": cls, "executor": ex, "where": {"reg": name},
                              "msg": f"op {i}: read {name} = {got:#x}, model says {want:#x} (last write {last_set})", "at": i})
        if gp != gr and ("div", name) not in flagged:
            flagged.add(("div", name))
            viols.append({"cls": "py_rs_diverge", "executor": "py+rs-regs", "where": {"reg": name},
                          "msg": f"op {i}: read {name}: python {gp:#x}, rust {gr:#x}", "at": i})
    return viols


def _since_restart_unwritten(ops: List[list], i: int, name: str) -> bool:
    """True when no write touching `name` happened between the last restart and op i."""
    group = {"A": "BA", "B": "BA", "BA": "BA", "IL": "I", "IH": "I", "I": "I", "F": "F", "FC": "F", "FZ": "F"}
    g = group.get(name, name)
    for j in range(i - 1, -1, -1):
        if ops[j][0] == "restart":
            return True
        if ops[j][0] == "set" and group.get(ops[j][1], ops[j][1]) == g:
            return False
    return False


def stats(scn: Dict[str, Any], hist: Dict[str, Any]) -> Dict[str, Any]:
    probes = dict(hist.get("_probes") or {})
    nontrivial = probes.get("alias_read_after_write", 0) > 0 and (probes.get("restart_py", 0) + probes.get("restart_rs_pack", 0)) > 0
    return {"nontrivial": nontrivial, "sig": digest(scn["ops"]),
            "faults": {"snapshot_restore": probes.get("restart_py", 0) + probes.get("restart_rs_pack", 0)},
            "probes": probes, "cycles": 0, "boundaries": len(scn["ops"])}


def sample(scn: Dict[str, Any], hist: Dict[str, Any]) -> Dict[str, Any]:
    return {"ops": scn["ops"][:20], "python": hist["py"][:20], "rust": hist["rs"][:20]}


def shrink(scn: Dict[str, Any]):
    ops = scn["ops"]
    n = len(ops)
    for cut in (n // 2, (3 * n) // 4, n - 1):
        if 1 <= cut < n:
            c = copy.deepcopy(scn)
            c["ops"] = ops[:cut]
            yield c
    chunk = max(1, n // 4)
    while chunk >= 1:
        for i in range(0, n, chunk):
            c = copy.deepcopy(scn)
            c["ops"] = ops[:i] + ops[i + chunk:]
            if c["ops"]:
                yield c
        if chunk == 1:
            break
        chunk //= 2
