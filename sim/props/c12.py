"""C12 — interrupts are taken only when enabled and pending, and are undone by RETI.

Both machine models run generated firmware under a seeded schedule of timer expiries,
key / ON-key edges and firmware writes to IMR/ISR; each is judged separately against the
interrupt-controller reference model in sim/irqmodel.py.
"""
from __future__ import annotations

import copy
from typing import Any, Dict, List

from .. import irqmodel, machine, progen
from ..rng import Rng
from ..runner import Batch, digest

ID = "C12"
TITLE = "Interrupts are taken only when enabled and pending, and are undone by RETI"
RULE = ("one run = generated firmware (main loop, subroutines, handler) x swarm configuration "
        "(timer periods, initial IMR, keyboard thresholds) x seeded event schedule; a run is "
        "non-trivial when at least one interrupt was delivered or a pending-but-masked window "
        "occurred; distinct = distinct hash of the per-run sequence of "
        "(event kind, power state, in-handler, IMR master, mask bits, status bits) tuples at "
        "injection and delivery points")
SCHEDULE_MEASURE = "distinct hashes of per-run (event, power, in-handler, IMR, ISR) tuple sequences"
COMPONENTS = {
    "real": ["pce500/emulator.py PCE500Emulator.step/_tick_timers/_scan_keyboard_per_instruction/press_key",
             "pce500/scheduler.py", "pce500/keyboard_matrix.py", "pce500/memory.py",
             "sc62015/pysc62015 emulator + instr lifting (Python core)",
             "sc62015/core/src/lib.rs CoreRuntime::step/deliver_pending_irq/press_on_key",
             "sc62015/core/src/timer.rs", "sc62015/core/src/keyboard.rs", "sc62015/core/src/llama/eval.rs",
             "sc62015/core/src/async_devices.rs AsyncTimerKeyboardTask::run on sc62015/core/src/async_driver.rs (rs-async-timer)",
             "save_snapshot/load_snapshot of both machines (restart ops in the faulty batches)"],
    "stub": ["binja_test_mocks (Binary Ninja API + LLIL evaluator)", "perfetto tracing compiled out",
             "synthetic firmware instead of the PC-E500 ROM", "host input modelled by the event schedule"],
}
ASSUMPTIONS = [
    "generated handlers are stack-neutral, start with NOP and touch only IMR/ISR/F/scratch (workload discipline)",
    "LLIL semantics are those of binja_test_mocks",
    "K_IRQ=4 and K_WAKE=2 boundaries are the promptness bounds",
]
PROBES = ["off_segment", "fired_running", "fired_halted", "delivery", "nested_delivery", "delivery_out_of_halt", "delivery_after_wait", "rise_while_masked",
          "masked_then_taken", "reti", "ir", "wake", "onk_while_off", "event_inside_handler",
          "both_timers_same_step", "two_sources_deliverable", "halted_boundary", "off_boundary"]

ALLOW = {"timers": True, "keys": True, "onk": True, "imr_writes": True, "isr_writes": True, "wait": True,
         "halt": True, "off": True, "ir": True, "calls": True, "far_calls": True, "nested": True, "bare_reti": True, "h_lowpower": True}


def batches(tier: str) -> List[Batch]:
    # rs-async-timer: the peripherals driven by AsyncTimerKeyboardTask on the virtual-time scheduler (no CPU task),
    # power state imposed per segment: the "powered off stops both timers" clause on the asynchronous path
    if tier == "quick":
        return [Batch("rs-async-timer", "rs-async-timer", 20000, 500),
                Batch("rs-clean", "rs-machine", 4000, 100, faulty=False),
                Batch("rs-faulty", "rs-machine", 16000, 100),
                Batch("py-clean", "py-machine", 480, 10, faulty=False),
                Batch("py-faulty", "py-machine", 1920, 10)]
    return [Batch("rs-async-timer", "rs-async-timer", 400000, 1000),
            Batch("rs-clean", "rs-machine", 40000, 200, faulty=False),
            Batch("rs-faulty", "rs-machine", 200000, 200),
            Batch("py-clean", "py-machine", 4000, 16, faulty=False),
            Batch("py-faulty", "py-machine", 20000, 16)]


def _gen_atimer(r: Rng) -> Dict[str, Any]:
    mti = r.choice([1, 2, 3, 5, 7, 16, 50])
    sti = r.choice([0, 2, 3, 11, 13, 40])
    segs = []
    for _ in range(r.range(3, 14)):
        segs.append([r.choice([1, 2, 3, 5, 8, 20, 60, r.range(1, 40)]), r.weighted([(0, 4), (1, 1), (2, 3)])])
    # the task is started either for ever (run) or for a fixed number of cycles covering the whole scenario (run_for)
    return {"kind": "atimer", "exec": "rs-async-timer",
            "cfg": {"enabled": r.chance(7, 8), "mti": mti, "sti": sti, "bounded": r.child("entry").chance(1, 3)}, "segs": segs}


def _check_atimer(scn: Dict[str, Any], hist: Dict[str, Any]) -> List[Dict[str, Any]]:
    viols: List[dict] = []
    probes: Dict[str, int] = {}
    hist["_probes"] = probes
    cfg = scn["cfg"]
    nxt = {"MTI": cfg["mti"], "STI": cfg["sti"]}
    period = {"MTI": cfg["mti"], "STI": cfg["sti"]}
    bitof = {"MTI": 1, "STI": 2}
    clock = 0
    flagged = set()

    def V(cls, k, msg, **where):
        key = (cls, tuple(sorted(where.items())))
        if key not in flagged:
            flagged.add(key)
            viols.append({"cls": cls, "executor": "rs-async-timer", "where": where, "msg": f"segment {k}: {msg}", "at": k})

    for k, (seg, rec) in enumerate(zip(scn["segs"], hist["out"])):
        c1, isr, n_mti, n_sti = rec[0], rec[1], rec[2], rec[3]
        power = seg[1]
        got_next = {"MTI": n_mti, "STI": n_sti}
        if c1 < clock:
            V("step_error", k, f"clock went backwards {clock} -> {c1}")
            break
        if power == 2:
            probes["off_segment"] = probes.get("off_segment", 0) + 1
            if isr & 3:
                V("off_timer_runs", k, f"timer status bits {isr & 3:#x} raised while powered off (cycles {clock + 1}..{c1})",
                  what="fired", path="async_timer_task", entry="run_for" if cfg.get("bounded") else "run")
            for name in ("MTI", "STI"):
                if cfg["enabled"] and period[name] > 0 and got_next[name] != nxt[name]:
                    V("off_timer_runs", k, f"{name} target moved {nxt[name]} -> {got_next[name]} while powered off",
                      what="target_moved", path="async_timer_task", entry="run_for" if cfg.get("bounded") else "run")
                    nxt[name] = got_next[name]
        else:
            fired = 0
            for name in ("MTI", "STI"):
                p = period[name]
                if cfg["enabled"] and p > 0:
                    for c in range(clock + 1, c1 + 1):
                        if c >= nxt[name]:
                            fired |= bitof[name]
                            while nxt[name] <= c:
                                nxt[name] += p
            if fired:
                probes["fired_running" if power == 0 else "fired_halted"] = probes.get(
                    "fired_running" if power == 0 else "fired_halted", 0) + 1
            if (isr & 3) != fired:
                V("lost_irq" if fired & ~isr else "gate_not_pending", k,
                  f"cycles {clock + 1}..{c1} ({'halted' if power == 1 else 'running'}): timer status bits {isr & 3:#x}, the period "
                  f"boundaries in that stretch give {fired:#x}", how="timer_task_cadence", path="async_timer_task")
            for name in ("MTI", "STI"):
                if cfg["enabled"] and period[name] > 0 and got_next[name] != nxt[name]:
                    V("lost_irq", k, f"{name} target {got_next[name]} after cycle {c1}, expected {nxt[name]}",
                      how="timer_task_target", path="async_timer_task")
                    nxt[name] = got_next[name]
        clock = c1
    return viols


def generate(batch: str, r: Rng, idx: int, tier: str) -> Dict[str, Any]:
    if batch == "rs-async-timer":
        return _gen_atimer(r)
    executor = "rs-machine" if batch.startswith("rs") else "py-machine"
    faulty = batch.endswith("faulty")
    feat = machine.gen_features(r.child("feat"), ALLOW)
    if not faulty:
        feat["keys"] = False
        feat["onk"] = False
        feat["timers"] = True
    if idx % 7 == 0:       # directed template share: guarantees the important probes
        feat.update({"timers": True, "imr_writes": True, "halt": idx % 14 == 0, "wait": True})
    n = r.child("len").choice([40, 60, 100, 160, 240] if executor == "rs-machine" else [40, 60, 100, 160])
    rxs = r.child("xstack")
    xstack = rxs.chance(1, 6)
    if xstack:
        feat["bare_reti"] = False      # hand-built frames are laid out below the default stack top
    scn = machine.gen_machine_scenario(r, executor, feat, boundaries=n, faulty=faulty)
    if xstack:
        # the system stack lives in a RAM expansion (an overlay on the bus, not the built-in RAM): interrupt frames are
        # pushed to and popped from wherever S points, through the same bus as every other store and load
        xs, xn = rxs.choice([[0x60000, 0x1000], [0x50000, 0x8000], [0x68000, 0x400]])
        scn["expand"] = [[xs, xn]]
        scn["regs"]["S"] = xs + xn - 0x10 * rxs.range(1, 8)
    rx = r.child("extra")
    if rx.chance(1, 2) and executor == "rs-machine":
        # the whole flag byte travels through interrupt frames, not only C and Z (a Rust program can load all eight
        # bits with POPU F; the Python lifter's F is the two flags, so nothing else is reachable there)
        scn["regs"]["F"] = rx.below(256)
    if rx.chance(1, 5):
        scn["kb"] = dict(scn.get("kb") or {})
        scn["kb"]["kb_irq"] = False             # keyboard interrupts switched off by the host (ON key and timers still work)
    rb = r.child("boot")
    if faulty and executor == "py-machine" and rb.chance(1, 5):
        # a boot phase: the firmware starts with the system stack pointer not loaded yet (S < 5) and interrupts
        # already enabled; an ON-key or key press arrives before `MV S, ...`.  (Python holds such a request back until the
        # stack exists; the Rust machine builds the frame wherever S points, which this scenario does not judge.)
        stub_base = progen.CODE_BASE - 0x40
        k = rb.range(1, 5)
        main = scn["prog"]["main"]
        stub = [0x00] * k + [0x0F, progen.S_INIT & 0xFF, (progen.S_INIT >> 8) & 0xFF, (progen.S_INIT >> 16) & 0xFF] + \
               [0x02, main & 0xFF, (main >> 8) & 0xFF]
        scn["prog"]["image"] = [[stub_base, stub]] + scn["prog"]["image"]
        for i in range(k):
            scn["prog"]["ins"][str(stub_base + i)] = [1, "NOP"]
        scn["prog"]["ins"][str(stub_base + k)] = [4, "MV_S"]
        scn["prog"]["ins"][str(stub_base + k + 4)] = [3, "JP:main"]
        scn["prog"]["code"] = [stub_base, scn["prog"]["code"][1]]
        scn["prog"]["entry"] = stub_base
        scn["regs"]["PC"] = stub_base
        scn["regs"]["S"] = rb.below(5)
        scn["imem"] = [[progen.IMR, rb.choice([0x8F, 0x88, 0x8C, 0x84])], [progen.ISR, 0]]
        at = rb.range(0, k)
        ev = [[at, "onk", 1], [at + rb.range(2, 10), "onk", 0]] if rb.chance(2, 3) else []
        scn["ops"] = sorted(scn["ops"] + ev, key=lambda o: o[0])
        scn["boot"] = True
    if faulty and r.child("restart").chance(1, 4):
        # crash/restart at an arbitrary boundary (snapshot -> fresh machine): the interrupt controller's state —
        # pending requests, handler nesting, the saved frame — must survive it like everything else
        rr = r.child("restart-at")
        for _ in range(rr.range(1, 2)):
            scn["ops"].append([rr.range(1, n - 1), "restart"])
        scn["ops"].sort(key=lambda o: (o[0], 0 if o[1] == "restart" else 1))
    return scn


def execute(scn: Dict[str, Any]) -> Dict[str, Any]:
    if scn.get("kind") == "atimer":
        from ..rshost import host
        return {"out": host().call([["a.timers", scn["cfg"], scn["segs"]]])[0]}
    return machine.run_machine(scn)


def check(scn: Dict[str, Any], hist: Dict[str, Any]) -> List[Dict[str, Any]]:
    if scn.get("kind") == "atimer":
        return _check_atimer(scn, hist)
    viols, facts = irqmodel.check_irq(scn, hist)
    hist["_facts"] = facts
    err = hist.get("err")
    if err and err.get("msg") not in ("left_code",):
        viols.append({"cls": "step_error", "executor": scn["exec"], "where": {"msg": str(err.get("msg"))[:60]},
                      "msg": f"boundary {err.get('at')}: step raised {err.get('msg')}", "at": err.get("at")})
    return viols


def stats(scn: Dict[str, Any], hist: Dict[str, Any]) -> Dict[str, Any]:
    if scn.get("kind") == "atimer":
        probes = dict(hist.get("_probes") or {})
        out = hist["out"]
        return {"nontrivial": bool(probes.get("off_segment")) and bool(probes.get("fired_running") or probes.get("fired_halted")),
                "sig": digest([scn["cfg"], scn["segs"]]), "faults": {"power_off_segment": probes.get("off_segment", 0)},
                "probes": probes, "cycles": out[-1][0] if out else 0, "boundaries": len(out)}
    facts = hist.get("_facts") or irqmodel.check_irq(scn, hist)[1]
    obs = hist["obs"]
    probes = dict(facts["probes"])
    faults = {k[3:]: v for k, v in probes.items() if k.startswith("op_")}
    probes = {k: v for k, v in probes.items() if not k.startswith("op_")}
    nontrivial = facts["deliveries"] > 0 or probes.get("rise_while_masked", 0) > 0
    if hist.get("err") and hist["err"].get("msg") == "left_code":
        probes["left_code"] = 1
    return {
        "nontrivial": nontrivial, "sig": digest(facts["sig"]), "faults": faults, "probes": probes,
        "cycles": (obs[-1][machine.O_CYC] - obs[0][machine.O_CYC]) if obs else 0,
        "boundaries": max(0, len(obs) - 1),
        "extra": {"max_liveness_latency_" + str(facts["max_latency"]): 1},
    }


def sample(scn: Dict[str, Any], hist: Dict[str, Any]) -> Dict[str, Any]:
    if scn.get("kind") == "atimer":
        return {"executor": scn["exec"], "cfg": scn["cfg"], "segments": scn["segs"][:8], "observed": hist["out"][:8]}
    obs = hist["obs"]
    return {
        "executor": scn["exec"], "timer": scn["timer"], "imr0": scn["imem"][0][1], "feat": scn["feat"],
        "program_bytes": len(scn["prog"]["image"][0][1]), "handler": hex(scn["prog"]["handler"]),
        "ops": scn["ops"][:12], "boundaries": scn["boundaries"],
        "history_abridged": [[o[machine.O_PC], o[machine.O_S], o[machine.O_IMR], o[machine.O_ISR], o[machine.O_PWR],
                              o[machine.O_IRQ]] for o in obs[:24]],
    }


def shrink(scn: Dict[str, Any]):
    """Candidates in decreasing order of ambition: truncate, drop ops (ddmin style), NOP out
    instructions (same length, addresses stay valid), simplify configuration."""
    if scn.get("kind") == "atimer":
        for i in range(len(scn["segs"]) - 1, 0, -1):
            c = copy.deepcopy(scn)
            c["segs"] = c["segs"][:i]
            yield c
        return
    n = scn["boundaries"]
    for nb in (n // 2, (3 * n) // 4, n - 8, n - 1):
        if 4 <= nb < n:
            c = copy.deepcopy(scn)
            c["boundaries"] = nb
            c["ops"] = [o for o in c["ops"] if o[0] < nb]
            yield c
    ops = scn["ops"]
    if ops:
        chunk = max(1, len(ops) // 2)
        while chunk >= 1:
            for i in range(0, len(ops), chunk):
                c = copy.deepcopy(scn)
                c["ops"] = ops[:i] + ops[i + chunk:]
                yield c
            if chunk == 1:
                break
            chunk //= 2
    # NOP out single instructions of main line and handler (never the handler's RETI / the closing JP)
    ins = sorted((int(a), v) for a, v in scn["prog"]["ins"].items())
    base, data = scn["prog"]["image"][0]
    for addr, (ln, tag) in ins:
        if tag in ("NOP", "RETI", "RET", "RETF", "JP:main", "HANDLER") or tag.startswith("SUB:"):
            continue
        if all(b == 0 for b in data[addr - base: addr - base + ln]):
            continue
        c = copy.deepcopy(scn)
        d = c["prog"]["image"][0][1]
        for i in range(ln):
            d[addr - base + i] = 0
        # the instruction map must stay truthful: the bytes are now NOPs
        del c["prog"]["ins"][str(addr)]
        for i in range(ln):
            c["prog"]["ins"][str(addr + i)] = [1, "NOP"]
        yield c
    t = scn["timer"]
    if t["sti"]:
        c = copy.deepcopy(scn)
        c["timer"]["sti"] = 0
        yield c
    if t["mti"]:
        c = copy.deepcopy(scn)
        c["timer"]["mti"] = 0
        yield c
