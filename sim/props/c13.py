"""C13 — timers fire exactly on period boundaries however time advances.

Component level: the simulator owns the clock and feeds one monotone cycle script (unit-tick
stretches, gaps, resets, snapshot/restore, enable/disable, period changes) to the Python
TimerScheduler and the Rust TimerContext; each is judged against the reference model and
their firing sequences are compared.  Machine level: both machines run WAIT/HALT-heavy
firmware with the interrupt master bit clear; the host acknowledges timer status bits at
every boundary and a status-bit rise must be witnessed in a boundary iff a period boundary
lies in the cycles that boundary covered.
"""
from __future__ import annotations

import copy
from typing import Any, Dict, List, Optional

from .. import machine, progen
from ..rng import Rng
from ..rshost import host
from ..runner import Batch, digest

ID = "C13"
TITLE = "Timers fire exactly on period boundaries however time advances"
RULE = ("component runs: one period pair (all of {0..12}^2 in rotation, then sampled large/prime/2^k/2^31-1) x a "
        "seeded monotone cycle script of unit-tick stretches, gaps of 1..5 periods, resets, snapshot->restore, "
        "enable/disable and period changes; non-trivial = at least one timer fired and the script has a gap, "
        "reset or restore; distinct = distinct (periods, script) hash. machine runs: generated firmware with "
        "WAIT/HALT, master bit clear, host ack at every boundary; non-trivial = at least one expiry witnessed")
SCHEDULE_MEASURE = "distinct (period pair, cycle script) hashes"
COMPONENTS = {
    "real": ["pce500/scheduler.py TimerScheduler.advance/reset", "sc62015/core/src/timer.rs TimerContext::"
             "{new,reset,tick_timers,snapshot_info,apply_snapshot_info}", "sc62015/core/src/memory.rs (ISR byte)",
             "machine level: PCE500Emulator.step/_tick_timers/_simulate_wait/reset, CoreRuntime::step"],
    "stub": ["the clock (cycle sequence) is the simulator's", "perfetto compiled out"],
}
ASSUMPTIONS = ["phase after a gap is implementation-defined and judged only by Python==Rust; cadence is judged "
               "inside unit-tick stretches relative to the target the implementation itself holds at stretch start",
               "default preserve_phase=true, timer_scale=1.0 only"]
PROBES = ["restore_into_used_machine", "host_reset", "host_reset_timers_off", "machine_restart", "both_fire_same_cycle", "gap_ge_3_periods", "restore_target_in_past", "period_one", "disabled_stretch",
          "zero_period", "reset_mid_period", "period_change", "i32_clamp", "machine_wait_cover", "machine_halt_idle"]

SMALL = [(a, b) for a in range(13) for b in range(13)]
LARGE = [2048, 512000, 7, 13, 97, 251, 1009, 65521, 16, 64, 1024, 65536, (1 << 31) - 1, 3, 5, 1000003]


def batches(tier: str) -> List[Batch]:
    if tier == "quick":
        return [Batch("comp", "py+rs-timer", 60000, 500), Batch("rs-machine", "rs-machine", 6000, 100),
                Batch("py-machine", "py-machine", 640, 10), Batch("rs-dev", "rs-machine", 1500, 100)]
    return [Batch("comp", "py+rs-timer", 400000, 500), Batch("rs-machine", "rs-machine", 150000, 300),
            Batch("py-machine", "py-machine", 12000, 20), Batch("rs-dev", "rs-machine", 60000, 300)]


def _gen_script(r: Rng, mti: int, sti: int) -> List[list]:
    script: List[list] = []
    c = r.choice([0, 0, 1, 5, 1000])
    pmax = max(mti, sti, 1)
    small = pmax <= 64
    # both implementations re-align a target with a `while target <= cycle: target += period` loop; keep the
    # work per gap bounded (performance is out of scope, a 2^31-iteration loop would only stall the batch)
    limit = 20000 * min([x for x in (mti, sti) if x > 0] or [1])
    if c:
        script.append(["reset", c])
    for _ in range(r.range(3, 14)):
        kind = r.weighted([("ticks", 10), ("gap", 5), ("reset", 2), ("restore", 3), ("enable", 2), ("periods", 1)])
        if kind == "ticks":
            n = r.range(1, 4 * pmax + 3) if small else r.range(1, 300)
            if not small and r.chance(1, 3):
                # steer a stretch across the next boundary of a large period
                p = r.choice([x for x in (mti, sti) if x > 0] or [1])
                k = (c // p + 1) * p
                if k - 20 > c and k - 20 - c <= limit:
                    script.append(["tick", k - 20])
                    c = k - 20 + 1
                n = 45
            script.append(["ticks", c, n])
            c += n
        elif kind == "gap":
            p = r.choice([x for x in (mti, sti) if x > 0] or [1])
            jump = r.choice([p, 2 * p, 3 * p + 1, 5 * p, p - 1 if p > 1 else 1, r.range(1, 3 * p + 2)])
            c += max(1, min(jump, limit))
            script.append(["tick", c])
            c += 1
        elif kind == "reset":
            script.append(["reset", c])
        elif kind == "restore":
            script.append(["restore", c])
        elif kind == "enable":
            # reconfiguration is followed by reset(current cycle), the pattern every caller uses
            script.append(["enable", r.chance(1, 2)])
            script.append(["reset", c])
        else:
            mti, sti = r.choice([mti, r.range(0, 12)]), r.choice([sti, r.range(0, 12)])
            script.append(["periods", mti, sti])
            script.append(["reset", c])
            limit = min(limit, 20000 * min([x for x in (mti, sti) if x > 0] or [1]))
    return script


def _gen_dev(r: Rng) -> Dict[str, Any]:
    """A Rust machine put together by DeviceModel::configure_runtime (the ROM's serial routines are answered by a
    stub) with interrupts enabled: the timer handler itself far-calls one of those routines.  Judged like the irq
    variant: timers stand still while the handler runs — inside the stubbed routine as well — and catch up after RETI."""
    base = progen.CODE_BASE
    a = progen.Asm(base)
    main = a.pc
    for _ in range(r.range(2, 6)):
        a.op("NOP")
    if r.chance(1, 2):
        a.op("MV_I", r.range(1, 9), 0)
        a.op("WAIT")
        a.op("NOP")
        a.op("NOP")
    a.op("JP", main & 0xFF, (main >> 8) & 0xFF, tag="JP:main")
    handler = a.pc
    a.op("NOP", tag="HANDLER")
    for _ in range(r.range(0, 4)):
        a.op("NOP")
    stub = r.choice([0xEB030, 0xEB31C, 0xEB33D])
    a.op("CALLF", stub & 0xFF, (stub >> 8) & 0xFF, (stub >> 16) & 0xFF, tag="CALLF:stub")
    for _ in range(r.range(0, 6)):
        a.op("NOP")
    a.op("AND_ISR", 0xFC, tag="H:clear")
    a.op("RETI")
    end = a.pc
    prog = {"image": [[base, list(a.buf)]],
            "rom_tail": [handler & 0xFF, (handler >> 8) & 0xFF, (handler >> 16) & 0xFF, main & 0xFF, (main >> 8) & 0xFF, (main >> 16) & 0xFF],
            "entry": base, "main": main, "handler": handler, "code": [base, 0xFFFFF],
            "ins": {str(addr): [ln, tag] for addr, ln, tag in a.ins}, "style": {"reenable": False, "clear": "timers"}}
    return {"kind": "machine", "exec": "rs-machine", "device": r.choice(["pce500", "jp"]), "prog": prog, "variant": "irq",
            "regs": {"PC": base, "S": progen.S_INIT, "U": progen.U_INIT, "BA": 0, "I": 0, "X": 0, "Y": 0, "F": 0},
            "imem": [[progen.IMR, r.choice([0x83, 0x81, 0x82])], [progen.ISR, 0]],
            "timer": {"enabled": True, "mti": r.range(3, 30), "sti": r.choice([0, r.range(3, 40)])},
            "kb": {"press": 1, "release": 1, "repeat_delay": 24, "repeat_interval": 6, "active_high": True},
            "boundaries": r.choice([60, 150]), "ops": [], "watch": [[progen.SCRATCH, 0x10]], "feat": {}, "faulty": False, "dev": True}


def generate(batch: str, r: Rng, idx: int, tier: str) -> Dict[str, Any]:
    if batch == "comp":
        if idx < 2 * len(SMALL):
            mti, sti = SMALL[idx % len(SMALL)]
        else:
            mti = r.choice(LARGE + [r.range(1, 40)])
            sti = r.choice(LARGE + [r.range(1, 40), 0])
        return {"kind": "timer", "exec": "py+rs-timer", "mti": mti, "sti": sti, "enabled": r.chance(7, 8),
                "script": _gen_script(r.child("script"), mti, sti)}
    if batch == "rs-dev":
        return _gen_dev(r)
    executor = batch
    # variants: plain (master enable clear, no keys) / keys (key events while the timers run: the scan and the KEYI
    # assertion share the timer tick) / irq (interrupts enabled: timers stand still while a handler runs and catch
    # up afterwards)
    variant = r.child("variant").weighted([("plain", 2), ("keys", 1), ("irq", 1)])
    feat = {"timers": True, "wait": True, "halt": r.chance(1, 2), "calls": r.chance(1, 2), "far_calls": False,
            "imr_writes": False, "isr_writes": False, "ir": False, "off": False, "keys": variant == "keys", "onk": False,
            "nested": False}
    n = r.choice([40, 80, 160] if executor == "py-machine" else [40, 80, 160, 320])
    scn = machine.gen_machine_scenario(r, executor, feat, boundaries=n, faulty=(variant == "keys"))
    if variant == "irq":
        scn["imem"] = [[progen.IMR, r.choice([0x83, 0x81, 0x82])], [progen.ISR, 0]]
    else:
        scn["imem"] = [[progen.IMR, r.choice([0x00, 0x03, 0x0F, 0x7F])], [progen.ISR, 0]]   # master bit clear
    scn["variant"] = variant
    key_ops = [o for o in scn.get("ops", []) if o[1] == "key"] if variant == "keys" else []
    # the host acknowledges the timer bits at every boundary (not with interrupts enabled: the handler does)
    scn["ops"] = key_ops + ([[k, "ackisr", 0x03] for k in range(n)] if variant != "irq" else [])
    # crash/restart points: the real save_snapshot/load_snapshot path must keep timer state
    rr = r.child("restarts")
    for _ in range(rr.range(0, 2)):
        k = rr.range(1, n - 1)
        # into a freshly constructed machine, or back into the same one after it ran on for a few instructions
        scn["ops"].append([k, "restart"] if rr.chance(2, 3) else [k, "rewind", rr.range(1, 12)])
    # the reset button in mid-run (Python machine; the Rust runtime has no whole-machine reset): sometimes with the
    # timers switched off around it.  Afterwards the timers must behave as after power-on.
    rh = r.child("hostreset")
    if executor == "py-machine" and variant == "plain" and rh.chance(1, 3) and n >= 40:
        k = rh.range(8, n - 12)
        if rh.chance(1, 2):
            scn["ops"].append([rh.range(2, k), "timers", False])
            scn["ops"].append([rh.range(k + 1, n - 2), "timers", True])
        scn["ops"].append([k, "hostreset"])
        scn["ops"] = [o for o in scn["ops"] if not (o[1] in ("restart", "rewind") and abs(o[0] - k) <= 1)]
    order = {"timers": 0, "hostreset": 1, "restart": 2, "rewind": 2}
    scn["ops"].sort(key=lambda o: (o[0], order.get(o[1], 3)))
    scn["kind"] = "machine"
    return scn


# ----------------------------------------------------------------------------------------


def _run_py_timer(scn: Dict[str, Any]) -> List[list]:
    from pce500.scheduler import TimerScheduler, TimerSource
    s = TimerScheduler(mti_period=scn["mti"], sti_period=scn["sti"], enabled=bool(scn["enabled"]))
    out: List[list] = []

    def tick(c):
        fired = list(s.advance(c))
        return (TimerSource.MTI in fired), (TimerSource.STI in fired)

    for step in scn["script"]:
        k = step[0]
        if k == "tick":
            m, t = tick(step[1])
            out.append(["tick", step[1], m, t, s.next_mti, s.next_sti])
        elif k == "ticks":
            fired = []
            bad = None
            for c in range(step[1], step[1] + step[2]):
                m, t = tick(c)
                if m or t:
                    fired.append([c, m, t])
                if s.enabled and bad is None and ((s.mti_period > 0 and s.next_mti <= c) or (s.sti_period > 0 and s.next_sti <= c)):
                    bad = c
            out.append(["ticks", step[1], step[2], fired, s.next_mti, s.next_sti, bad])
        elif k == "reset":
            s.reset(cycle_base=step[1])
            out.append(["reset", step[1], s.next_mti, s.next_sti])
        elif k == "enable":
            s.enabled = bool(step[1])
        elif k == "periods":
            s.mti_period, s.sti_period = int(step[1]), int(step[2])
        elif k == "restore":
            # what PCE500Emulator.load_snapshot does with the saved timer dict
            info = {"enabled": bool(s.enabled), "mti_period": int(s.mti_period), "sti_period": int(s.sti_period),
                    "next_mti": int(s.next_mti), "next_sti": int(s.next_sti)}
            fresh = TimerScheduler(mti_period=2048, sti_period=512000)
            fresh.mti_period = info["mti_period"]
            fresh.sti_period = info["sti_period"]
            fresh.reset(cycle_base=step[1])
            fresh.next_mti = info["next_mti"]
            fresh.next_sti = info["next_sti"]
            fresh.enabled = info["enabled"]
            s = fresh
            out.append(["restore", s.enabled, s.mti_period, s.sti_period, s.next_mti, s.next_sti])
    return out


def execute(scn: Dict[str, Any]) -> Dict[str, Any]:
    if scn["kind"] == "machine":
        return machine.run_machine(scn)
    py = _run_py_timer(scn)
    rs = host().call([["t.new", 0, bool(scn["enabled"]), scn["mti"], scn["sti"]],
                      ["t.script", 0, scn["script"]]])[0]
    return {"py": py, "rs": rs}


class _Model:
    """next/period/enabled per timer, resynchronised to the implementation's own targets
    at the start of every unit-tick stretch (ASSUMPTIONS)."""

    def __init__(self):
        pass


def _expected_fires(nxt: int, period: int, enabled: bool, c0: int, n: int) -> List[int]:
    if not enabled or period <= 0:
        return []
    out = []
    end = c0 + n - 1
    if nxt <= c0:
        out.append(c0)
        k = nxt + ((c0 - nxt) // period + 1) * period
    else:
        k = nxt
    while k <= end:
        out.append(k)
        k += period
    return out


def _check_impl(scn: Dict[str, Any], trace: List[list], ex: str, viols: List[dict]) -> List[tuple]:
    """Judge one implementation; return its firing sequence [(cycle, mti, sti)]."""
    def V(cls, msg, **where):
        viols.append({"cls": cls, "executor": ex, "where": where, "msg": msg, "at": 0})

    enabled = bool(scn["enabled"])
    mti, sti = scn["mti"], scn["sti"]
    if ex == "rs-timer":
        mti, sti = min(mti, (1 << 31) - 1), min(sti, (1 << 31) - 1)
    # targets the implementation holds; initial value after construction (cycle base 0)
    nm = mti if (enabled or ex == "py-timer") and mti > 0 else 0
    ns = sti if (enabled or ex == "py-timer") and sti > 0 else 0
    known = True      # construction at cycle base 0: the first boundary is one period away
    fires: List[tuple] = []
    it = iter(trace)
    for step in scn["script"]:
        k = step[0]
        if k in ("enable",):
            enabled = bool(step[1])
            continue
        if k == "periods":
            mti, sti = int(step[1]), int(step[2])
            continue
        rec = next(it, None)
        if rec is None:
            V("trace_short", "implementation returned fewer records than the script has steps")
            break
        if k == "reset":
            nm, ns, known = rec[2], rec[3], True
            base = step[1]
            for nme, p, got in (("MTI", mti, rec[2]), ("STI", sti, rec[3])):
                if enabled and p > 0 and got <= base:
                    V("target_in_future", f"after reset({base}) {nme} target {got} is not in the future", timer=nme, after="reset")
        elif k == "restore":
            if ex == "rs-timer":
                en, pm, ps, gm, gs = rec[1], rec[2], rec[3], rec[4], rec[5]
            else:
                en, pm, ps, gm, gs = rec[1], rec[2], rec[3], rec[4], rec[5]
            lim = (1 << 31) - 1
            if known and (en != enabled or (pm, ps) != (mti, sti) or (gm, gs) != (nm, ns)):
                if ex == "rs-timer" and (max(mti, sti, nm, ns) > lim):
                    # snapshot fields are i32: stated lossy above 2^31-1, not judged — and nothing
                    # after such a restore can be compared with the Python scheduler
                    scn.setdefault("_lossy_from", step[1])
                else:
                    V("restore_changes_timer", f"snapshot->restore changed timer state: enabled {enabled}->{en}, periods "
                      f"({mti},{sti})->({pm},{ps}), targets ({nm},{ns})->({gm},{gs})", field="state")
            enabled, mti, sti, nm, ns, known = en, pm, ps, gm, gs, True
        elif k == "tick":
            c, m, s2, gm, gs = rec[1], rec[2], rec[3], rec[4], rec[5]
            if known:
                em = enabled and mti > 0 and c >= nm
                es = enabled and sti > 0 and c >= ns
                if m and not enabled:
                    V("fires_when_disabled", f"MTI fired at {c} while disabled", timer="MTI")
                elif m and mti <= 0:
                    V("fires_with_zero_period", f"MTI fired at {c} with period 0", timer="MTI")
                elif m != em:
                    V("cadence", f"gap tick at {c}: MTI fired={m}, target was {nm} period {mti}", timer="MTI", where_="gap")
                if s2 and not enabled:
                    V("fires_when_disabled", f"STI fired at {c} while disabled", timer="STI")
                elif s2 and sti <= 0:
                    V("fires_with_zero_period", f"STI fired at {c} with period 0", timer="STI")
                elif s2 != es:
                    V("cadence", f"gap tick at {c}: STI fired={s2}, target was {ns} period {sti}", timer="STI", where_="gap")
            for nme, p, got in (("MTI", mti, gm), ("STI", sti, gs)):
                if enabled and p > 0 and got <= c:
                    V("target_in_future", f"after tick({c}) {nme} target {got} is not in the future", timer=nme, after="tick")
            if ex == "rs-timer" and (m or s2):
                want = (1 if m else 0) | (2 if s2 else 0)
                if (rec[7] & want) != want:
                    V("isr_bit", f"firing at {c} did not set ISR bits {want:#x} (ISR={rec[7]:#x})")
            if m or s2:
                fires.append((c, bool(m), bool(s2)))
            nm, ns, known = gm, gs, True
        elif k == "ticks":
            c0, n, fired, gm, gs = rec[1], rec[2], rec[3], rec[4], rec[5]
            bad_target = rec[6]
            if known:
                exp_m = _expected_fires(nm, mti, enabled, c0, n)
                exp_s = _expected_fires(ns, sti, enabled, c0, n)
                got_m = [f[0] for f in fired if f[1]]
                got_s = [f[0] for f in fired if f[2]]
                for nme, exp, got, p in (("MTI", exp_m, got_m, mti), ("STI", exp_s, got_s, sti)):
                    if got != exp:
                        if got and not enabled:
                            V("fires_when_disabled", f"{nme} fired at {got[:4]} while disabled", timer=nme)
                        elif got and p <= 0:
                            V("fires_with_zero_period", f"{nme} fired at {got[:4]} with period 0", timer=nme)
                        else:
                            extra = [x for x in got if x not in exp][:3]
                            miss = [x for x in exp if x not in got][:3]
                            V("cadence", f"{nme} period {p} target {nm if nme == 'MTI' else ns}: ticking every cycle "
                              f"{c0}..{c0 + n - 1} fired at {got[:6]}, boundaries are {exp[:6]} (extra {extra}, missed {miss})",
                              timer=nme, where_="stretch", kind="extra" if extra else "missed")
            if bad_target is not None:
                V("target_in_future", f"after tick({bad_target}) a timer target is not in the future", timer="any", after="tick")
            if ex == "rs-timer" and len(rec) > 7 and rec[7] is not None:
                V("isr_bit", f"firing at {rec[7]} did not set the matching ISR bit")
            for f in fired:
                fires.append((f[0], bool(f[1]), bool(f[2])))
            nm, ns, known = gm, gs, True
    return fires


def _check_machine(scn: Dict[str, Any], hist: Dict[str, Any]) -> List[dict]:
    viols: List[dict] = []
    ex = scn["exec"]

    def V(cls, k, msg, **where):
        viols.append({"cls": cls, "executor": ex, "where": where, "msg": f"boundary {k}: {msg}", "at": k})

    obs = hist["obs"]
    pre_map = hist.get("preobs", {})
    t = scn["timer"]
    restarts = set(o[0] for o in scn["ops"] if o[1] in ("restart", "rewind"))
    switches = {o[0]: bool(o[2]) for o in scn["ops"] if o[1] == "timers"}
    resets = set(o[0] for o in scn["ops"] if o[1] == "hostreset")
    t = dict(t)
    for k in range(len(obs) - 1):
        pre = pre_map.get(str(k), obs[k])
        post = obs[k + 1]
        if k in switches:
            t["enabled"] = switches[k]
        if k in resets:
            # power-on phase: cycle counter 0, first MTI at its period, first STI at its period — whatever the
            # machine did before and whether or not the timers are switched on at this moment
            want = (0, t["mti"] if t["mti"] > 0 else pre[machine.O_NMTI], t["sti"] if t["sti"] > 0 else pre[machine.O_NSTI])
            got = (pre[machine.O_CYC], pre[machine.O_NMTI], pre[machine.O_NSTI])
            if got != want:
                V("reset_phase", k, f"after the host reset the machine has (cycle, next MTI, next STI) = {got}, power-on is {want} "
                  f"(timers {'on' if t['enabled'] else 'off'})", level="machine", timers_on=bool(t["enabled"]))
        if k in restarts and k > 0:
            a, b = obs[k], pre
            if (a[machine.O_NMTI], a[machine.O_NSTI], a[machine.O_CYC]) != (b[machine.O_NMTI], b[machine.O_NSTI], b[machine.O_CYC]):
                V("restore_changes_timer", k, f"snapshot->restore changed timer state: targets "
                  f"({a[machine.O_NMTI]},{a[machine.O_NSTI]})@{a[machine.O_CYC]} -> "
                  f"({b[machine.O_NMTI]},{b[machine.O_NSTI]})@{b[machine.O_CYC]}", field="state", level="machine")
        c0, c1 = pre[machine.O_CYC], post[machine.O_CYC]
        # cycle values this step handed to the timers.  Python ticks the pre-increment value c0 at the top of
        # the step and, inside WAIT, c0+1..c0+I before the final increment (c0..c1-1 in all); Rust increments
        # first and ticks c0+1..c1.
        if c1 == c0:
            continue      # nothing advanced (e.g. breakpoint / powered off)
        if pre[machine.O_ININT] or (ex == "py-machine" and post[machine.O_ININT] and not pre[machine.O_PWR]):
            # a handler is running: both machines keep the timers still until it has returned.  (The Python step takes
            # a pending interrupt before its tick, so the step that enters the handler does not tick either — unless it
            # started halted: the halted branch ticks first and the wake-up is delivered in the same step.)
            for bit, name, nidx in ((1, "MTI", machine.O_NMTI), (2, "STI", machine.O_NSTI)):
                rose = bool(post[machine.O_ISR] & bit) and not (pre[machine.O_ISR] & bit)
                if rose or post[nidx] != pre[nidx]:
                    V("cadence", k, f"{name} {'fired' if rose else 'moved its target'} while an interrupt handler was running "
                      f"(target {pre[nidx]} -> {post[nidx]})", timer=name, kind="inside_handler", level="machine")
            continue
        if ex == "py-machine":
            first, last = c0, c1 - 1
        else:
            first, last = c0 + 1, c1
        irq_variant = scn.get("variant") == "irq"
        for bit, name, period, nidx in ((1, "MTI", t["mti"], machine.O_NMTI), (2, "STI", t["sti"], machine.O_NSTI)):
            nxt = pre[nidx]
            expect = bool(t["enabled"] and period > 0 and nxt <= last)
            if irq_variant:
                # nobody acknowledges the status bits at the boundaries here (the handler does, inside a step), so a
                # firing shows as the target moving on, not as a bit rising
                moved = post[nidx] != pre[nidx]
                if moved and not expect:
                    V("cadence", k, f"{name} target moved {pre[nidx]} -> {post[nidx]} although no period boundary lies in cycles "
                      f"{first}..{last}", timer=name, kind="extra", level="machine")
                if expect and not moved:
                    V("cadence", k, f"{name} period boundary at {nxt} lies in cycles {first}..{last} but the timer did not fire "
                      f"(target unchanged)", timer=name, kind="missed", level="machine")
                if expect and moved and not ((post[machine.O_ISR] | pre[machine.O_ISR]) & bit) and not post[machine.O_ININT]:
                    V("isr_bit", k, f"{name} fired (target {pre[nidx]} -> {post[nidx]}) but its status bit is clear and no "
                      f"handler is running", timer=name, level="machine")
                if t["enabled"] and period > 0 and post[nidx] <= last:
                    V("target_in_future", k, f"{name} target {post[nidx]} not beyond last ticked cycle {last}",
                      timer=name, after="step")
                continue
            rose = bool(post[machine.O_ISR] & bit) and not (pre[machine.O_ISR] & bit)
            if rose and not expect:
                V("cadence", k, f"{name} status bit rose although no period boundary (target {nxt}, period {period}) lies in "
                  f"cycles {first}..{last}", timer=name, kind="extra", level="machine")
            if expect and not rose:
                V("cadence", k, f"{name} period boundary at {nxt} lies in cycles {first}..{last} but the status "
                  f"bit did not rise", timer=name, kind="missed", level="machine")
            if t["enabled"] and period > 0 and post[nidx] <= last:
                V("target_in_future", k, f"{name} target {post[nidx]} not beyond last ticked cycle {last}",
                  timer=name, after="step")
            # the instant of the firing inside the step (Python machine: the memory seam sees the status bit being
            # set together with the cycle counter): the first cycle handed to the timers that is not before the target
            extra = post[machine.O_SHADOW] if len(post) > machine.O_SHADOW and isinstance(post[machine.O_SHADOW], dict) else None
            if ex == "py-machine" and expect and rose and extra and extra.get("timer_rise"):
                at = [c for c, bits, *_ in extra["timer_rise"] if bits & bit]
                due = max(nxt, first)
                if at and at[0] != due:
                    V("fire_instant", k, f"{name} boundary {nxt} (cycles {first}..{last} ticked in this step): the status bit "
                      f"was set at cycle {at[0]}, not at {due}", timer=name, level="machine")
    return viols


def check(scn: Dict[str, Any], hist: Dict[str, Any]) -> List[Dict[str, Any]]:
    if scn["kind"] == "machine":
        v = _check_machine(scn, hist)
        err = hist.get("err")
        if err and err.get("msg") != "left_code":
            v.append({"cls": "step_error", "executor": scn["exec"], "where": {}, "msg": str(err), "at": err.get("at")})
        return v
    viols: List[dict] = []
    fp = _check_impl(scn, hist["py"], "py-timer", viols)
    fr = _check_impl(scn, hist["rs"], "rs-timer", viols)
    lim = (1 << 31) - 1
    cut = scn.pop("_lossy_from", None)
    if cut is not None:
        fp = [f for f in fp if f[0] < cut]
        fr = [f for f in fr if f[0] < cut]
    if fp != fr and scn["mti"] <= lim and scn["sti"] <= lim:
        i = next((j for j in range(min(len(fp), len(fr))) if fp[j] != fr[j]), min(len(fp), len(fr)))
        viols.append({"cls": "py_rs_diverge", "executor": "py+rs-timer", "where": {},
                      "msg": f"firing sequences differ at #{i}: python {fp[i:i + 3]} rust {fr[i:i + 3]} "
                             f"(periods {scn['mti']},{scn['sti']})", "at": i})
    hist["_fires"] = len(fp)
    return viols


def stats(scn: Dict[str, Any], hist: Dict[str, Any]) -> Dict[str, Any]:
    probes: Dict[str, int] = {}
    if scn["kind"] == "machine":
        obs = hist["obs"]
        fired = sum(1 for k in range(len(obs) - 1) if (obs[k + 1][machine.O_ISR] & 3))
        if any(obs[k + 1][machine.O_CYC] - obs[k][machine.O_CYC] > 1 for k in range(len(obs) - 1)):
            probes["machine_wait_cover"] = 1
        if any(o[machine.O_PWR] == 1 for o in obs):
            probes["machine_halt_idle"] = 1
        if any(o[1] in ("restart", "rewind") for o in scn["ops"]):
            probes["machine_restart"] = 1
        if any(o[1] == "rewind" for o in scn["ops"]):
            probes["restore_into_used_machine"] = 1
        if any(o[1] == "hostreset" for o in scn["ops"]):
            probes["host_reset"] = 1
            if any(o[1] == "timers" for o in scn["ops"]):
                probes["host_reset_timers_off"] = 1
        return {"nontrivial": fired > 0, "sig": digest([scn["prog"]["image"], scn["timer"]]),
                "faults": {"wait_burst": probes.get("machine_wait_cover", 0), "halt_idle": probes.get("machine_halt_idle", 0)},
                "probes": probes, "cycles": obs[-1][machine.O_CYC] if obs else 0, "boundaries": len(obs) - 1}
    script = scn["script"]
    kinds = [s[0] for s in script]
    ticks = sum(s[2] for s in script if s[0] == "ticks") + kinds.count("tick")
    fires = hist.get("_fires", 0)
    both = any(f[1] and f[2] for rec in hist["py"] if rec[0] == "ticks" for f in rec[3])
    if both:
        probes["both_fire_same_cycle"] = 1
    if scn["mti"] == 1 or scn["sti"] == 1:
        probes["period_one"] = 1
    if scn["mti"] == 0 or scn["sti"] == 0:
        probes["zero_period"] = 1
    if "reset" in kinds[1:]:
        probes["reset_mid_period"] = 1
    if "periods" in kinds:
        probes["period_change"] = 1
    if max(scn["mti"], scn["sti"]) >= (1 << 31) - 1:
        probes["i32_clamp"] = 1
    if not scn["enabled"] or ["enable", False] in script:
        probes["disabled_stretch"] = 1
    # gap spanning >= 3 periods / restore with target already in the past
    last_c = 0
    for s, rec in zip([x for x in script if x[0] not in ("enable", "periods")], hist["py"]):
        if s[0] == "tick":
            p = min([x for x in (scn["mti"], scn["sti"]) if x > 0] or [1])
            if s[1] - last_c >= 3 * p:
                probes["gap_ge_3_periods"] = 1
            last_c = s[1]
        elif s[0] == "ticks":
            last_c = s[1] + s[2]
        elif s[0] == "restore":
            if (rec[4] and rec[4] <= s[1]) or (rec[5] and rec[5] <= s[1]):
                probes["restore_target_in_past"] = 1
    faults = {"clock_gap": kinds.count("tick"), "reset": kinds.count("reset"), "snapshot_restore": kinds.count("restore"),
              "enable_toggle": kinds.count("enable"), "period_change": kinds.count("periods")}
    nontrivial = fires > 0 and any(k in kinds for k in ("tick", "reset", "restore"))
    return {"nontrivial": nontrivial, "sig": digest([scn["mti"], scn["sti"], scn["enabled"], script]),
            "faults": faults, "probes": probes, "cycles": ticks, "boundaries": ticks}


def sample(scn: Dict[str, Any], hist: Dict[str, Any]) -> Dict[str, Any]:
    if scn["kind"] == "machine":
        return {"executor": scn["exec"], "timer": scn["timer"], "boundaries": scn["boundaries"],
                "history_abridged": [[o[machine.O_PC], o[machine.O_CYC], o[machine.O_ISR], o[machine.O_NMTI], o[machine.O_NSTI]]
                                     for o in hist["obs"][:20]]}
    return {"mti": scn["mti"], "sti": scn["sti"], "enabled": scn["enabled"], "script": scn["script"][:10],
            "python_trace": hist["py"][:4], "rust_trace": hist["rs"][:4]}


def shrink(scn: Dict[str, Any]):
    if scn["kind"] == "machine":
        n = scn["boundaries"]
        for nb in (n // 2, n - 4, n - 1):
            if 2 <= nb < n:
                c = copy.deepcopy(scn)
                c["boundaries"] = nb
                c["ops"] = [o for o in c["ops"] if o[0] < nb]
                yield c
        return
    s = scn["script"]
    for i in range(len(s)):
        if len(s) > 1:
            c = copy.deepcopy(scn)
            del c["script"][i]
            yield c
    for i, st in enumerate(s):
        if st[0] == "ticks" and st[2] > 1:
            c = copy.deepcopy(scn)
            c["script"][i][2] = st[2] // 2
            yield c
    for key in ("mti", "sti"):
        if scn[key] > 1:
            c = copy.deepcopy(scn)
            c[key] = scn[key] // 2
            yield c
