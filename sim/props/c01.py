"""C01 — decoding any byte string is total, deterministic and consistent across consumers (partial).

Claimed part: one process-wide OPCODES table with shared operand templates serves four
consumers (instruction info, text, low-level IL, the emulator's fetch path through
CachedFetchDecoder over a memory seam).  The simulator issues a seeded, interleaved request
stream to all four and injects byte-source faults: short reads (buffer cut at every k below
the instruction length), fetches whose operands cross the top of the address space, and
trailing bytes that differ between two requests.  Oracles: history independence (the same
request gives the same answer wherever it occurs in the stream, and in a reference
interpreter that sees the requests in a different seeded order), trailing-byte independence,
length bounds, consumer agreement, no unexpected exception.
Not claimed: totality as a theorem over all byte strings.
"""
from __future__ import annotations

import copy
from typing import Any, Dict, List, Optional

from ..rng import Rng
from ..runner import Batch, digest

ID = "C01"
TITLE = "Decoding any byte string is total, deterministic and consistent across consumers"
RULE = ("one run = a stream of ~120 byte strings taken from a seeded permutation of the structural space (optional PRE "
        "prefix x opcode x second byte, ~1.1M cells) with random operand bytes and seeded addresses; each string is sent "
        "to the four consumers interleaved with the others, again later in the stream, with mutated trailing bytes, and "
        "truncated at every length below the decoded one; non-trivial = at least one accepted multi-byte instruction "
        "with a short-read and a repeat; distinct = distinct structural cells visited")
SCHEDULE_MEASURE = "structural cells (prefix?, opcode, second byte) visited; request-stream hashes"
COMPONENTS = {
    "real": ["sc62015/arch.py get_instruction_info/get_instruction_text/get_instruction_low_level_il",
             "sc62015/pysc62015/instr/{opcodes,opcode_table,instructions}.py decode/create_instruction/OPCODES",
             "sc62015/pysc62015/emulator.py Emulator.decode_instruction/execute_instruction (fresh per request and one instance "
             "living through the whole stream)", "sc62015/pysc62015/cpu.py CPU.decode_instruction/execute_instruction (python backend)",
             "sc62015/pysc62015/cached_decoder.py"],
    "stub": ["binja_test_mocks (Architecture base class, token and LLIL mocks)"],
}
ASSUMPTIONS = ["the emulator's fetch path never rejects (it substitutes a one-byte fallback); it is compared on accepted "
               "encodings only", "the reference interpreter is long-lived per worker and sees requests in another order"]
PROBES = ["live_same", "live_last_byte_changed", "live_exec_after_peek", "accepted", "rejected", "prefixed", "short_read", "short_read_prefix_only", "trailing_mutated", "repeat_later",
          "fetch_past_top", "page_edge_addr"]
PRES = [0x21, 0x22, 0x23, 0x24, 0x25, 0x26, 0x27, 0x30, 0x31, 0x32, 0x33, 0x34, 0x35, 0x36, 0x37]
SPACE = 16 * 256 * 256
_ARCH = None
_REF = None


def batches(tier: str) -> List[Batch]:
    if tier == "quick":
        return [Batch("stream", "py-decode", 1200, 10)]
    return [Batch("stream", "py-decode", 9000, 20)]      # 9000 x 120 = 1.08M cells: the whole structural space once


def _cell(n: int) -> List[int]:
    pre, rest = divmod(n, 65536)
    op, second = divmod(rest, 256)
    return ([PRES[pre - 1]] if pre else []) + [op, second]


def generate(batch: str, r: Rng, idx: int, tier: str) -> Dict[str, Any]:
    per = 120
    total_runs = 1200 if tier == "quick" else 9000
    # a fixed multiplicative permutation of the structural space, sliced by run index
    step = 700_001          # coprime with 2^20
    items = []
    for j in range(per):
        n = ((idx * per + j) * step + 12345) % SPACE
        head = _cell(n)
        tail = [r.below(256) for _ in range(8 - len(head))]
        addr = r.choice([0x0, 0x1000, 0xFFFE, 0xFFFFA, 0xFFFFF, 0x7FFFC, r.below(0x100000), 0xB8000, 0x10000 - 3])
        items.append({"bytes": head + tail, "addr": addr})
    order = r.shuffle(list(range(per)) + list(range(0, per, 3)))     # every third string is asked again later
    return {"kind": "decode", "exec": "py-decode", "items": items, "order": order,
            "consumers": [r.below(4) for _ in order], "mut": [r.below(256) for _ in order]}


# ----------------------------------------------------------------------------------------


def _arch():
    global _ARCH
    if _ARCH is None:
        from binja_test_mocks import binja_api  # noqa: F401
        import sc62015.arch as arch
        _ARCH = arch.SC62015()
    return _ARCH


def _il_canon(node, labels: Dict[int, int]):
    """Structural form of a mock IL node: operation names and operands, labels numbered by first use."""
    from binja_test_mocks.mock_llil import MockGoto, MockIfExpr, MockLabel, MockLLIL
    if isinstance(node, MockLLIL):
        return [node.op, [_il_canon(x, labels) for x in node.ops]]
    if isinstance(node, MockLabel):
        return ["LABEL", labels.setdefault(id(node.label), len(labels))]
    if isinstance(node, MockIfExpr):
        return ["IF", _il_canon(node.cond, labels), labels.setdefault(id(node.t), len(labels)),
                labels.setdefault(id(node.f), len(labels))]
    if isinstance(node, MockGoto):
        return ["GOTO", labels.setdefault(id(node.label), len(labels))]
    if isinstance(node, (int, str, bool)) or node is None:
        return node
    if isinstance(node, (list, tuple)):
        return [_il_canon(x, labels) for x in node]
    name = getattr(node, "name", None)
    if isinstance(name, str):
        return ["N", name]
    return ["O", type(node).__name__, str(node) if "0x" not in repr(node) else type(node).__name__]


def _il_digest(il) -> str:
    labels: Dict[int, int] = {}
    return digest([_il_canon(x, labels) for x in il.ils])


def ask(consumer: int, bs: List[int], addr: int) -> list:
    """One request.  Returns [status, length, mnemonic, extra] with status in
    accept / reject / EXC:<type>."""
    from binja_test_mocks.mock_llil import MockLowLevelILFunction
    from binja_test_mocks.tokens import asm_str
    a = _arch()
    data = bytes(bs)
    try:
        if consumer == 0:
            info = a.get_instruction_info(data, addr)
            if info is None:
                return ["reject", 0, None, None]
            return ["accept", int(info.length), None, [[b.type.name, b.target] for b in info.branches]]
        if consumer == 1:
            res = a.get_instruction_text(data, addr)
            if res is None:
                return ["reject", 0, None, None]
            toks, ln = res
            text = "".join(str(getattr(t, "text", t)) for t in toks)
            return ["accept", int(ln), text.split()[0] if text.split() else "", text]
        if consumer == 2:
            il = MockLowLevelILFunction()
            ln = a.get_instruction_low_level_il(data, addr, il)
            if ln is None:
                return ["reject", 0, None, None]
            return ["accept", int(ln), None, _il_digest(il)]
        # emulator fetch path over a memory seam: bytes beyond the buffer read as a marker that must never matter
        from binja_test_mocks.eval_llil import Memory
        from sc62015.pysc62015.emulator import Emulator

        def rd(x):
            off = x - addr
            if 0 <= off < len(bs):
                return bs[off]
            return 0xA5

        emu = Emulator(Memory(rd, lambda x, v: None), reset_on_init=False)
        ins = emu.decode_instruction(addr)
        nm = ins.name()
        if nm.startswith("UNK_") or nm.upper().startswith("PRE"):
            # a fallback stand-in, or a prefix byte that could not fuse (executing it raises InvalidInstruction)
            return ["reject", int(ins.length()), nm, None]
        return ["accept", int(ins.length()), nm, None]
    except Exception as e:
        return [f"EXC:{type(e).__name__}", 0, None, str(e)[:80]]


class _Machine:
    """One Emulator and one CPU facade (python backend) over a memory seam whose contents the harness rewrites before
    every request: the fetch path of a machine that lives through the whole request stream (its decoder caches,
    look-ahead and register file see every earlier request), next to the fresh instances `ask` builds."""

    def __init__(self):
        from binja_test_mocks.eval_llil import Memory
        from sc62015.pysc62015.cpu import CPU
        from sc62015.pysc62015.emulator import Emulator
        self.cells: Dict[int, int] = {}

        def rd(x):
            return self.cells.get(x & 0xFFFFFF, 0xA5)

        def wr(x, v):
            self.cells[x & 0xFFFFFF] = v & 0xFF

        self.mem = Memory(rd, wr)
        self.emu = Emulator(self.mem, reset_on_init=False)
        self.cpu = CPU(self.mem, reset_on_init=False, backend="python")

    def place(self, bs: List[int], addr: int) -> None:
        self.cells.clear()
        for i, b in enumerate(bs):
            self.cells[(addr + i) & 0xFFFFFF] = b

    @staticmethod
    def _describe(ins) -> list:
        from binja_test_mocks.tokens import asm_str
        nm = ins.name()
        try:
            text = asm_str(ins.render())
        except Exception as e:          # placeholders render nothing
            text = f"<{type(e).__name__}>"
        return ["accept" if not (nm.startswith("UNK_") or nm.upper().startswith("PRE")) else "reject", int(ins.length()), nm, text]

    def decode(self, which: str, bs: List[int], addr: int) -> list:
        self.place(bs, addr)
        try:
            return self._describe((self.emu if which == "fetch" else self.cpu).decode_instruction(addr))
        except Exception as e:
            return [f"EXC:{type(e).__name__}", 0, None, str(e)[:80]]

    def execute(self, which: str, bs: List[int], addr: int, peek: Optional[List[int]] = None) -> list:
        """Execute the instruction at addr from a fixed register state; with `peek`, the machine first looks at other
        bytes at the same address (a debugger's disassembly view, a trace hook) which are then replaced."""
        from sc62015.pysc62015.emulator import RegisterName as R
        m = self.emu if which == "fetch" else self.cpu
        try:
            if peek is not None:
                self.place(peek, addr)
                m.decode_instruction(addr)
            self.place(bs, addr)
            for name, val in (("BA", 0x1234), ("I", 1), ("X", 0x40000), ("Y", 0x40100), ("U", 0x40200), ("S", 0x40300),
                              ("F", 0), ("PC", addr)):
                m.regs.set(getattr(R, name), val)
            try:
                m.state.halted = False
            except Exception:
                pass
            info = m.execute_instruction(addr)
            ins = getattr(info, "instruction", None)
            done = self._describe(ins) if ins is not None else None
            return ["ran", done, m.regs.get(R.PC) & 0xFFFFF, m.regs.get(R.BA) & 0xFFFF, sorted(self.cells.items())[:40]]
        except Exception as e:
            return [f"EXC:{type(e).__name__}", str(e)[:60]]


def allr_ok(allr) -> bool:
    """Executed only when every consumer accepts the bytes, and never for instructions that stop or restart the
    machine or loop on a counter (RESET, block instructions are left to C06/C07)."""
    if not all(x[0] == "accept" for x in allr):
        return False
    m = (allr[3][2] or "").upper()
    return not (m.startswith("RESET") or m.endswith("L") or m in ("MVLD", "WAIT", "HALT", "OFF"))


def _run_stream(scn: Dict[str, Any]) -> List[list]:
    out = []
    live = _Machine()
    for pos, k in enumerate(scn["order"]):
        it = scn["items"][k]
        bs = list(it["bytes"])
        c = scn["consumers"][pos]
        base = ask(c, bs, it["addr"])
        rec = {"k": k, "c": c, "base": base, "all": None, "trail": None, "short": None}
        # all four consumers on the same bytes (consumer agreement), interleaved with the stream
        rec["all"] = [ask(cc, bs, it["addr"]) for cc in range(4)]
        ln = max((x[1] for x in rec["all"] if x[0] == "accept"), default=0)
        if ln:
            mutated = bs[:ln] + [b ^ scn["mut"][pos] ^ 0xFF for b in bs[ln:]]
            rec["trail"] = ask(c, mutated, it["addr"])
            rec["short"] = [[cut, ask(cc, bs[:cut], it["addr"])] for cut in range(1, ln) for cc in (0, 1, 2)]
        # the long-lived machine against fresh ones: the same bytes, then the same address with only the last byte
        # of the instruction changed (what a decoder cache keyed too coarsely would miss), then — every fourth
        # request — executed after the machine had looked at the other variant at that address
        lv = []
        variant = list(bs)
        if ln >= 2:
            variant[ln - 1] ^= (scn["mut"][pos] | 1)
        for which in ("fetch", "cpu"):
            lv.append([which, "same", live.decode(which, bs, it["addr"]), _Machine().decode(which, bs, it["addr"])])
            if ln >= 2:
                lv.append([which, "last_byte_changed", live.decode(which, variant, it["addr"]),
                           _Machine().decode(which, variant, it["addr"])])
        if ln >= 1 and pos % 4 == 0 and allr_ok(rec["all"]):
            which = "fetch" if pos % 8 == 0 else "cpu"
            lv.append([which, "exec_after_peek", live.execute(which, bs, it["addr"], peek=variant),
                       _Machine().execute(which, bs, it["addr"])])
        rec["live"] = lv
        out.append(rec)
    return out


def execute(scn: Dict[str, Any]) -> Dict[str, Any]:
    from ..asmref import HarnessError  # noqa: F401
    mine = _run_stream(scn)
    # reference interpreter: the distinct strings only, in reverse order, info consumer + text consumer
    global _REF
    import os
    if _REF is None or _REF[1] != os.getpid():
        _REF = (_RefProc(), os.getpid())
    ref_out = _REF[0].decode_all([[it["bytes"], it["addr"]] for it in reversed(scn["items"])])
    ref_out.reverse()
    return {"stream": mine, "ref": ref_out}


class _RefProc:
    """Separate interpreter answering (bytes, addr) -> [info, text] in the order it is given."""
    _SRC = r'''
import sys, json, os
os.environ["FORCE_BINJA_MOCK"] = "1"
sys.path.insert(0, "/verif"); sys.path.insert(0, os.environ.get("VERIF_REPO", "/repo"))
from sim.props import c01
for line in sys.stdin:
    line = line.strip()
    if not line:
        continue
    reqs = json.loads(line)
    out = [[c01.ask(0, bs, addr), c01.ask(1, bs, addr), c01.ask(2, bs, addr)] for bs, addr in reqs]
    sys.stdout.write(json.dumps(out) + "\n"); sys.stdout.flush()
'''

    def __init__(self):
        self.proc = None

    def decode_all(self, reqs):
        import json
        import os
        import select
        import subprocess
        import sys
        from ..rshost import HarnessError
        if self.proc is None or self.proc.poll() is not None:
            env = dict(os.environ)
            env["PYTHONHASHSEED"] = "4242"
            self.proc = subprocess.Popen([sys.executable, "-c", self._SRC], stdin=subprocess.PIPE, stdout=subprocess.PIPE,
                                         stderr=subprocess.DEVNULL, env=env, bufsize=0)
            self.buf = b""
        self.proc.stdin.write(json.dumps(reqs).encode() + b"\n")
        self.proc.stdin.flush()
        fd = self.proc.stdout.fileno()
        while b"\n" not in self.buf:
            r, _, _ = select.select([fd], [], [], 180)
            if not r:
                self.proc.kill()
                self.proc = None
                raise HarnessError("decoder reference process did not answer")
            chunk = os.read(fd, 1 << 20)
            if not chunk:
                self.proc = None
                raise HarnessError("decoder reference process exited")
            self.buf += chunk
        line, _, self.buf = self.buf.partition(b"\n")
        return json.loads(line)


def check(scn: Dict[str, Any], hist: Dict[str, Any]) -> List[Dict[str, Any]]:
    viols: List[dict] = []
    probes: Dict[str, int] = {}
    hist["_probes"] = probes
    seen_keys = set()

    def V(cls, pos, msg, **where):
        key = (cls, tuple(sorted(where.items())))
        if key in seen_keys:
            return
        seen_keys.add(key)
        viols.append({"cls": cls, "executor": "py-decode", "where": where, "msg": f"request {pos}: {msg}", "at": pos})

    def probe(n, c=1):
        probes[n] = probes.get(n, 0) + c

    first: Dict[tuple, list] = {}
    names = ["info", "text", "il", "fetch"]
    for pos, rec in enumerate(hist["stream"]):
        it = scn["items"][rec["k"]]
        bs, addr = it["bytes"], it["addr"]
        hx = " ".join(f"{b:02X}" for b in bs)
        opc = f"{bs[1] if bs[0] in PRES else bs[0]:02X}"
        if bs[0] in PRES:
            probe("prefixed")
        if addr & 0xFFFF >= 0xFFF8 or addr >= 0xFFFF8:
            probe("page_edge_addr")
        if addr + 8 > 0x100000:
            probe("fetch_past_top")
        allr = rec["all"]
        for ci, res in enumerate(allr):
            if res[0].startswith("EXC"):
                V("unexpected_exception", pos, f"{names[ci]} raised {res[0][4:]} ({res[3]}) on {hx} at {addr:#x}",
                  consumer=names[ci], exc=res[0][4:])
            elif res[0] == "accept" and not (0 < res[1] <= len(bs)):
                V("length_bounds", pos, f"{names[ci]} returned length {res[1]} for {len(bs)} bytes {hx}", consumer=names[ci])
        info = allr[0]
        if info[0] == "accept":
            probe("accepted")
            for ci in (1, 2, 3):
                o = allr[ci]
                if o[0] == "reject" or (o[0] == "accept" and o[1] != info[1]):
                    V("consumer_disagree", pos, f"info accepts {hx} at {addr:#x} with length {info[1]}, {names[ci]} says "
                      f"{o[0]} length {o[1]}", which=names[ci], opcode=opc)
            if allr[1][0] == "accept" and allr[3][0] == "accept" and allr[1][2] and allr[3][2] and \
                    allr[1][2].split()[0].upper() != allr[3][2].split()[0].upper():
                V("consumer_disagree", pos, f"mnemonic: text says {allr[1][2]}, fetch path says {allr[3][2]} for {hx}",
                  which="mnemonic", opcode=opc)
        else:
            probe("rejected")
        # history independence: the same request answered identically wherever it occurs, and in the reference
        key = (rec["k"], rec["c"])
        if key in first:
            probe("repeat_later")
            if first[key] != rec["base"]:
                V("history_dependence", pos, f"{names[rec['c']]} on {hx} at {addr:#x} answered {first[key][:3]} earlier and "
                  f"{rec['base'][:3]} now", consumer=names[rec["c"]], against="earlier_in_stream")
        else:
            first[key] = rec["base"]
        refrec = hist["ref"][rec["k"]]
        for ci in (0, 1, 2):
            if refrec[ci] != allr[ci]:
                V("history_dependence", pos, f"{names[ci]} on {hx} at {addr:#x}: this process {allr[ci][:3]}, reference "
                  f"interpreter {refrec[ci][:3]}", consumer=names[ci], against="reference_process")
        # the long-lived machine must answer as a fresh one does
        for which, what, got, fresh in rec.get("live") or []:
            probe("live_" + what)
            nm = {"fetch": "fetch_live", "cpu": "cpu_facade"}[which]
            for side, res in (("live", got), ("fresh", fresh)):
                if isinstance(res[0], str) and res[0].startswith("EXC") and what != "exec_after_peek":
                    V("unexpected_exception", pos, f"{nm} ({side} machine) raised {res[0][4:]} ({res[-1]}) on {hx} at {addr:#x}",
                      consumer=nm, exc=res[0][4:])
            if got != fresh:
                V("history_dependence", pos, f"{nm} {what} on {hx} at {addr:#x}: the machine that lived through the stream says "
                  f"{str(got)[:120]}, a fresh one {str(fresh)[:120]}", consumer=nm, against="fresh_machine", what=what)
            if what == "same" and which == "cpu" and info[0] == "accept" and not (isinstance(fresh[0], str) and fresh[0].startswith("EXC")):
                if fresh[0] != "accept" or fresh[1] != info[1]:
                    V("consumer_disagree", pos, f"info accepts {hx} at {addr:#x} with length {info[1]}, the CPU facade's fetch says "
                      f"{fresh[0]} length {fresh[1]}", which="cpu_facade", opcode=opc)
        # trailing bytes
        if rec["trail"] is not None:
            probe("trailing_mutated")
            if rec["trail"] != rec["base"] and rec["base"][0] == "accept":
                cause = "unfused_pre" if (bs[0] in PRES and rec["base"][1] == 1) else "other"
                V("trailing_dependence", pos, f"{names[rec['c']]} on {hx}: bytes beyond the consumed length changed the answer "
                  f"from {rec['base'][:3]} to {rec['trail'][:3]}", consumer=names[rec["c"]], cause=cause)
        # short reads: never a length beyond the buffer, never an unexpected exception
        for cut, res in rec["short"] or []:
            probe("short_read")
            if cut == 1 and bs[0] in PRES:
                probe("short_read_prefix_only")
            if res[0].startswith("EXC"):
                V("unexpected_exception", pos, f"consumer raised {res[0][4:]} on the first {cut} bytes of {hx}",
                  consumer="short_read", exc=res[0][4:])
            elif res[0] == "accept" and res[1] > cut:
                V("length_bounds", pos, f"accepted {cut} bytes of {hx} with length {res[1]}", consumer="short_read")
    return viols


def stats(scn: Dict[str, Any], hist: Dict[str, Any]) -> Dict[str, Any]:
    probes = dict(hist.get("_probes") or {})
    nontrivial = probes.get("accepted", 0) > 0 and probes.get("short_read", 0) > 0 and probes.get("repeat_later", 0) > 0
    return {"nontrivial": nontrivial, "sig": digest([it["bytes"][:3] for it in scn["items"]]),
            "faults": {"short_read": probes.get("short_read", 0), "trailing_bytes_mutated": probes.get("trailing_mutated", 0),
                       "fetch_past_top": probes.get("fetch_past_top", 0)},
            "probes": probes, "cycles": 0, "boundaries": len(scn["order"]),
            "extra": {"structural_cells_visited": len(scn["items"])}}


def sample(scn: Dict[str, Any], hist: Dict[str, Any]) -> Dict[str, Any]:
    return {"requests": [[" ".join(f"{b:02X}" for b in scn["items"][r["k"]]["bytes"]), hex(scn["items"][r["k"]]["addr"]), r["c"], r["base"][:3]]
                         for r in hist["stream"][:10]]}


def shrink(scn: Dict[str, Any]):
    order = scn["order"]
    n = len(order)
    for cut in (n // 2, n - 1):
        if 1 <= cut < n:
            c = copy.deepcopy(scn)
            c["order"], c["consumers"], c["mut"] = order[:cut], scn["consumers"][:cut], scn["mut"][:cut]
            yield c
    chunk = max(1, n // 4)
    while chunk >= 1:
        for i in range(0, n, chunk):
            c = copy.deepcopy(scn)
            c["order"] = order[:i] + order[i + chunk:]
            c["consumers"] = scn["consumers"][:i] + scn["consumers"][i + chunk:]
            c["mut"] = scn["mut"][:i] + scn["mut"][i + chunk:]
            if c["order"]:
                yield c
        if chunk == 1:
            break
        chunk //= 2
