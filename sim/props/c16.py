"""C16 — saving and restoring a snapshot does not change the future.

A machine scenario (C12-style firmware plus LCD traffic, KIL reads and held keys) runs to
crash point k; the original continues, while a *freshly constructed* emulator loads the
bundle written at k and runs the same remaining boundaries with the same inputs.  Every
later observation must be equal.  Crash points are steered to interesting states (halted,
off, inside a handler, request pending but masked, key held / latched, timer about to fire).
"""
from __future__ import annotations

import copy
from typing import Any, Dict, List

from .. import machine, progen
from ..machine import (O_BA, O_CYC, O_F, O_FIFO, O_I, O_IMR, O_ININT, O_INS, O_IRQ, O_ISR, O_LATCH, O_NMTI, O_NSTI,
                       O_PC, O_PEND, O_PWR, O_S, O_STACK, O_U, O_WATCH, O_X, O_Y)
from ..rng import Rng, mix
from ..runner import Batch, digest

ID = "C16"
TITLE = "Saving and restoring a snapshot does not change the future"
RULE = ("one run = generated firmware (interrupts, WAIT/HALT/OFF, LCD traffic, KIL reads) x event schedule x one "
        "crash point k (half steered to interesting states found in the uninterrupted run): the uninterrupted "
        "run and the run restored from the bundle written at k are compared boundary by boundary; non-trivial = "
        "the crash point lies in a non-default state (halted/off/in handler/pending/keys held/LCD written/timer "
        "within 2 cycles) ; distinct = distinct (scenario, k) hash; cross batch: the bundle of one implementation is loaded by "
        "the other and registers, memory, LCD, timers, internal memory and the keyboard (strobes, held keys, debounce "
        "counters, event queue — filled to capacity in a share of the runs) are compared")
SCHEDULE_MEASURE = "distinct (scenario, crash point) hashes; crash-state classes in probes"
COMPONENTS = {
    "real": ["pce500/emulator.py save_snapshot/load_snapshot (real zip files in a per-process scratch dir)",
             "sc62015/core/src/lib.rs CoreRuntime::save_snapshot/load_snapshot", "sc62015/core/src/snapshot.rs",
             "timer.rs snapshot_info/apply_snapshot_info", "keyboard.rs snapshot_state/load_snapshot_state",
             "lcd.rs export_snapshot/load_snapshot", "both machines' step loops",
             "memory.rs export_flat_external/import_overlay_data_from_flat + PCE500Memory.export_flat_memory (RAM-expansion overlays)",
             "device.rs DeviceModel::configure_runtime + sio.rs SioStub (device-configured Rust machine, every boundary a crash point)"],
    "stub": ["zip container writer/reader for the Rust side is /verif/rust/zipshim (crates.io zip is unavailable offline)",
             "binja_test_mocks", "perfetto compiled out", "synthetic firmware"],
}
ASSUMPTIONS = ["the restarted emulator is constructed with the same constructor arguments, ROM image and (empty) RAM-expansion overlays",
               "diagnostic counters, creation time, bit-watch tables and call-depth bookkeeping are not compared"]
PROBES = ["crash_halted", "crash_off", "crash_in_handler", "crash_pending_masked", "crash_key_held", "crash_key_latched",
          "crash_timer_within_2", "crash_lcd_written", "crash_after_lcd_read", "crash_fifo_nonempty", "crash_before_wait",
          "delivery_after_restore", "cross_py_to_rs", "cross_rs_to_py"]

ALLOW = {"timers": True, "keys": True, "onk": True, "imr_writes": True, "isr_writes": True, "wait": True,
         "halt": True, "off": True, "ir": True, "calls": True, "far_calls": True, "nested": True,
         "lcd": True, "kil_reads": True, "rom_writes": True, "h_lowpower": True, "ioregs": True}

FIELDS = [("PC", O_PC), ("BA", O_BA), ("I", O_I), ("X", O_X), ("Y", O_Y), ("U", O_U), ("S", O_S), ("F", O_F),
          ("power", O_PWR), ("IMR", O_IMR), ("ISR", O_ISR), ("cycles", O_CYC), ("instructions", O_INS),
          ("irq_deliveries", O_IRQ), ("fifo_len", O_FIFO), ("stack", O_STACK), ("memory", O_WATCH)]


def batches(tier: str) -> List[Batch]:
    if tier == "quick":
        return [Batch("rs", "rs-machine", 6000, 100), Batch("py", "py-machine", 480, 6),
                Batch("cross", "py+rs-cross", 320, 5), Batch("rs-dev", "rs-machine", 120, 30)]
    return [Batch("rs", "rs-machine", 300000, 300), Batch("py", "py-machine", 16000, 10),
            Batch("cross", "py+rs-cross", 10000, 10), Batch("rs-dev", "rs-machine", 20000, 100)]


def generate(batch: str, r: Rng, idx: int, tier: str) -> Dict[str, Any]:
    if batch == "rs-dev":
        # a Rust machine put together by DeviceModel::configure_runtime whose firmware reaches the ROM's serial
        # routines (answered by a stub) through a far call and a tail jump: every boundary is a crash point
        from . import c07
        scn = c07._gen_dev(r)
        scn["kind"] = "machine"
        scn["final_state"] = True
        scn["crashes"] = list(range(1, scn["boundaries"] - 1))
        scn["crash_seed"] = 0
        scn["crash_modes"] = {str(k): ["fresh"] for k in scn["crashes"]}
        scn["dev"] = True
        return scn
    if batch == "cross":
        feat = machine.gen_features(r.child("feat"), ALLOW)
        feat["off"] = False        # Python has no off state to write (known finding under C12)
        n = r.child("len").choice([20, 40, 80])
        direction = "py_to_rs" if idx % 2 == 0 else "rs_to_py"
        rx = r.child("expand")
        expand = []
        if rx.chance(1, 3):
            # (not next to 0x80000: the byte after the overlay would be in the window that only the Rust machine mirrors)
            expand = [[rx.choice([0x50000, 0x60000, 0x68000]), rx.choice([0x400, 0x1000, 0x8000])]]
            feat["xram"] = expand[0]
        scn = machine.gen_machine_scenario(r, "py-machine" if direction == "py_to_rs" else "rs-machine", feat,
                                           boundaries=n, faulty=True)
        scn["expand"] = expand
        for xs, xn in expand:
            scn["watch"] = scn["watch"] + [[xs - 1, 3], [xs + xn - 2, 3]]
        rq = r.child("queue-pressure")
        if rq.chance(1, 6):
            # queue pressure: several keys pressed and released quickly while the firmware never reads KIL, short
            # debounce and a fast main timer (the Rust machine scans on MTI) — the event queue fills up to its capacity
            # and the bundle is written with a full ring
            keys = rq.sample(machine.all_key_codes(), 6)
            t = rq.range(1, 4)
            ev = []
            for _ in range(2):
                for kc in keys[:rq.range(3, 6)]:
                    ev.append([t, "key", 1, kc])
                    ev.append([t + rq.range(3, 7), "key", 0, kc])
                    t += 1
                t += rq.range(4, 9)
            scn["ops"] = sorted([o for o in ev if o[0] < n - 1], key=lambda o: o[0])
            scn["kb"].update({"press": 1, "release": 1})
            scn["timer"] = {"enabled": True, "mti": 2, "sti": 0}
            scn["queue_pressure"] = True
        scn["final_state"] = True
        scn["kind"] = "cross"
        scn["direction"] = direction
        scn["por"] = True      # both machines start from their power-on reset state
        return scn
    executor = "rs-machine" if batch == "rs" else "py-machine"
    feat = machine.gen_features(r.child("feat"), ALLOW)
    if idx % 5 == 0:
        feat.update({"halt": True, "timers": True})
    if idx % 5 == 1:
        feat.update({"keys": True, "kil_reads": True})
    if idx % 5 == 2:
        feat.update({"lcd": True})
    n = r.child("len").choice([30, 60, 120] if executor == "py-machine" else [30, 60, 120, 200])
    rx = r.child("expand")
    expand = []
    if rx.chance(1, 3):
        # a RAM-expansion overlay is installed (expand_ram / add_ram_overlay) and the firmware uses its edges
        expand = [[rx.choice([0x50000, 0x60000, 0x7F000]), rx.choice([0x400, 0x1000, 0x8000])]]
        feat["xram"] = expand[0]
    scn = machine.gen_machine_scenario(r, executor, feat, boundaries=n, faulty=True)
    scn["final_state"] = True
    scn["expand"] = expand
    # the interrupt/reset vectors (last bytes of the ROM window) and a few ROM / unpopulated-window bytes are
    # part of "memory": read through the bus at every boundary
    scn["watch"] = scn["watch"] + [[0xFFFFA, 6], [0xC1000, 5], [0x01000, 4]]
    for xs, xn in expand:
        scn["watch"] = scn["watch"] + [[xs - 1, 3], [xs + xn - 2, 3]]
    scn["pce500_map"] = bool(r.child("map").chance(1, 2))    # Rust: documented read-only windows configured
    # keyboard interrupts switched off in a quarter of the machines: a configuration flag that must survive too
    scn["kb"] = dict(scn.get("kb") or {})
    scn["kb"]["kb_irq"] = bool(r.child("kbirq").chance(3, 4))
    if executor == "rs-machine" and r.child("kbrepeat").chance(1, 4):
        # a host-side option of the Rust matrix that is not part of a bundle: auto-repeat switched off, with short
        # repeat timing so that a held key would repeat within the run
        scn["kb"]["repeat"] = False
        scn["kb"]["repeat_delay"] = 2
        scn["kb"]["repeat_interval"] = 2
    # constructor arguments a restarted emulator is given again (same values): they must not leak into restored state
    rcx = r.child("ctor")
    if executor == "py-machine" and rcx.chance(1, 3):
        scn["ctor"] = {"timer_scale": rcx.choice([0.5, 2.0, 0.25, 3.0])}
    # the whole flag byte, not only C and Z: firmware can load F from the stack (POPU F, a hand-built RETI frame)
    if rcx.chance(1, 2) and executor == "rs-machine":
        scn["regs"]["F"] = rcx.below(256)
    scn["crashes"] = None
    scn["crash_seed"] = r.child("crash").u64()
    scn["n_crashes"] = 2 if executor == "py-machine" else 3
    return scn


def _interesting(scn: Dict[str, Any], obs: List[list]) -> Dict[str, List[int]]:
    img = {}
    for addr, data in scn["prog"]["image"]:
        for i, b in enumerate(data):
            img[addr + i] = b
    t = scn["timer"]
    out: Dict[str, List[int]] = {}

    def add(name, k):
        out.setdefault(name, []).append(k)

    lcd_seen = False
    for k, o in enumerate(obs[:-1]):
        if k == 0:
            continue
        pw = o[O_PWR]
        if pw == 1 and scn["exec"] == "py-machine" and img.get((o[O_PC] - 1) & 0xFFFFF) == 0xDF:
            pw = 2
        if pw == 1:
            add("crash_halted", k)
        if pw == 2:
            add("crash_off", k)
        if o[O_ININT]:
            add("crash_in_handler", k)
        if (o[O_ISR] & 0x0F) and not ((o[O_IMR] & 0x80) and (o[O_IMR] & o[O_ISR] & 0x0F)):
            add("crash_pending_masked", k)
        if o[O_LATCH]:
            add("crash_key_latched", k)
        if o[O_FIFO]:
            add("crash_fifo_nonempty", k)
        if t["enabled"]:
            for p, nx in ((t["mti"], o[O_NMTI]), (t["sti"], o[O_NSTI])):
                if p > 0 and 0 <= nx - o[O_CYC] <= 2:
                    add("crash_timer_within_2", k)
                    break
        if img.get(o[O_PC]) == 0xEF and pw == 0:
            add("crash_before_wait", k)
        tag = (scn["prog"]["ins"].get(str(obs[k - 1][O_PC])) or [0, ""])[1]
        if tag == "LCD_R":
            add("crash_after_lcd_read", k)      # the controller's column moved (or its busy flag fell) without a write
        if tag == "LCD_W":
            lcd_seen = True
        if lcd_seen:
            add("crash_lcd_written", k)
    held = set()
    opsk: Dict[int, List[list]] = {}
    for op in scn["ops"]:
        opsk.setdefault(op[0], []).append(op)
    for k in range(len(obs) - 1):
        for op in opsk.get(k, []):
            if op[1] == "key":
                (held.add if op[2] else held.discard)(op[3])
        if held and k > 0:
            add("crash_key_held", k)
    return out


def _choose_crashes(scn: Dict[str, Any], obs: List[list]) -> List[int]:
    if scn.get("crashes"):
        return [k for k in scn["crashes"] if 1 <= k < len(obs) - 1]
    n = len(obs) - 1
    if n < 3:
        return []
    r = Rng(scn["crash_seed"])
    cats = _interesting(scn, obs)
    picks: List[int] = []
    names = sorted(cats)
    for i in range(scn.get("n_crashes", 2)):
        if names and i % 2 == 0:
            picks.append(r.choice(cats[r.choice(names)]))
        else:
            picks.append(r.range(1, n - 1))
    return sorted(set(picks))


def _execute_cross(scn: Dict[str, Any]) -> Dict[str, Any]:
    """Run on the writer to the last boundary, save with the writer's save_snapshot, load the
    bundle into a freshly constructed instance of the *other* implementation."""
    import os
    from ..rshost import host
    path = os.path.join(machine.scratch_dir(), f"cross-{os.getpid()}.pcsnap")
    watch = scn.get("watch", [])
    try:
        if scn["direction"] == "py_to_rs":
            emu = machine.build_py_machine(scn)
            ops = scn.get("ops", [])
            oi = 0
            for k in range(scn["boundaries"]):
                while oi < len(ops) and ops[oi][0] <= k:
                    emu = machine.py_apply_op(emu, ops[oi], scn)
                    oi += 1
                o = machine.py_obs(emu, watch)
                lo, hi = scn["prog"]["code"]
                if not o[O_PWR] and not (lo <= o[O_PC] <= hi):
                    break
                emu.step()
            writer_obs = machine.py_obs(emu, watch)
            writer_final = machine.py_final(emu)
            writer_extra = {"pending": bool(emu._irq_pending), "in_interrupt": bool(emu._in_interrupt)}
            emu.save_snapshot(path)
            out = host().call([["m.new", 0, {"expand": machine.rs_expand(scn)}], ["m.load", 0, path], ["m.obs", 0, watch], ["m.lcd", 0],
                               ["m.timerstate", 0], ["m.read", 0, 0x100000, 256], ["m.kbstate", 0]])
            loaded, robs, lcd, tm, imem = out[0], out[1], out[2], out[3], out[4]
            reader_final = {"lcd": {"meta": machine._canon_lcd_meta((lcd or {}).get("meta")), "vram": (lcd or {}).get("vram")},
                            "timer": {k: tm.get(k) for k in ("enabled", "mti", "sti", "next_mti", "next_sti")},
                            "imem": imem, "kb": _rs_kb(out[5])}
            reader_extra = {"pending": tm.get("pending"), "in_interrupt": tm.get("in_interrupt")}
        else:
            ops = machine.rs_setup_ops(scn, 0)
            events: List[list] = []
            for op in scn.get("ops", []):
                events.extend(machine.rs_event(op, 0, scn, machine.scratch_dir()))
            lo, hi = scn["prog"]["code"]
            ops.append(["m.run", 0, scn["boundaries"], events, watch, lo, hi])
            ops += [["m.obs", 0, watch], ["m.lcd", 0], ["m.timerstate", 0], ["m.read", 0, 0x100000, 256], ["m.save", 0, path],
                    ["m.kbstate", 0]]
            out = host().call(ops)
            writer_obs, lcd, tm, imem = out[1], out[2], out[3], out[4]
            writer_final = {"lcd": {"meta": machine._canon_lcd_meta((lcd or {}).get("meta")), "vram": (lcd or {}).get("vram")},
                            "timer": {k: tm.get(k) for k in ("enabled", "mti", "sti", "next_mti", "next_sti")},
                            "imem": imem, "kb": _rs_kb(out[5])}
            writer_extra = {"pending": tm.get("pending"), "in_interrupt": tm.get("in_interrupt")}
            fresh = machine.build_py_fresh(scn)
            loaded = {"loaded": True}
            try:
                machine.quiet_load(fresh, path)
            except Exception as e:
                loaded = {"loaded": False, "err": f"{type(e).__name__}: {e}"}
            robs = machine.py_obs(fresh, watch)
            rf = machine.py_final(fresh)
            reader_final = {"lcd": {"meta": rf["lcd"]["meta"], "vram": rf["lcd"]["vram"]},
                            "timer": {k: rf["timer"][k] for k in ("enabled", "mti", "sti", "next_mti", "next_sti")},
                            "imem": rf["imem"], "kb": rf["kb"]}
            reader_extra = {"pending": bool(fresh._irq_pending), "in_interrupt": bool(fresh._in_interrupt)}
            writer_final = {k: writer_final[k] for k in ("lcd", "timer", "imem", "kb")}
        if scn["direction"] == "py_to_rs":
            writer_final = {"lcd": {"meta": writer_final["lcd"]["meta"], "vram": writer_final["lcd"]["vram"]},
                            "timer": {k: writer_final["timer"][k] for k in ("enabled", "mti", "sti", "next_mti", "next_sti")},
                            "imem": writer_final["imem"], "kb": writer_final["kb"]}
    finally:
        try:
            os.remove(path)
        except OSError:
            pass
    return {"loaded": loaded, "writer_obs": writer_obs, "reader_obs": robs, "writer_final": writer_final,
            "reader_final": reader_final, "writer_extra": writer_extra, "reader_extra": reader_extra}


def _rs_kb(kb) -> Dict[str, Any]:
    """The Rust matrix's state in the vocabulary of machine.py_final (queued events in order, strobes, held keys and
    the debounce/repeat counters of every key that is pressed or debounced)."""
    snap = (kb or {}).get("snap") or {}
    return {"fifo": (kb or {}).get("fifo"), "kol": snap.get("kol"), "koh": snap.get("koh"),
            "pressed": sorted(snap.get("pressed_keys") or []),
            "keys": {k: [v["pressed"], v["debounced"], v["press_ticks"], v["release_ticks"], v["repeat_ticks"]]
                     for k, v in sorted((snap.get("key_states") or {}).items()) if v["pressed"] or v["debounced"]}}


def _check_cross(scn: Dict[str, Any], hist: Dict[str, Any]) -> List[Dict[str, Any]]:
    viols: List[Dict[str, Any]] = []
    ex = "py+rs-cross"
    d = scn["direction"]

    def V(cls, msg, **where):
        where["direction"] = d
        viols.append({"cls": cls, "executor": ex, "where": where, "msg": f"{d}: {msg}", "at": scn["boundaries"]})

    if not hist["loaded"].get("loaded"):
        V("cross_load", f"bundle did not load: {hist['loaded'].get('err')}", field="load")
        return viols
    w, r = hist["writer_obs"], hist["reader_obs"]
    for name, idx in [("PC", O_PC), ("BA", O_BA), ("I", O_I), ("X", O_X), ("Y", O_Y), ("U", O_U), ("S", O_S), ("F", O_F),
                      ("IMR", O_IMR), ("ISR", O_ISR), ("cycles", O_CYC), ("instructions", O_INS),
                      ("stack", O_STACK), ("memory", O_WATCH)]:
        if w[idx] != r[idx]:
            V("cross_load", f"{name} written={_short(w[idx])} loaded={_short(r[idx])}", field=name)
            return viols
    if bool(w[O_PWR]) != bool(r[O_PWR]):
        V("cross_load", f"power state written={w[O_PWR]} loaded={r[O_PWR]}", field="power")
        return viols
    for dev in ("lcd", "timer", "imem", "kb"):
        a, b = hist["writer_final"].get(dev), hist["reader_final"].get(dev)
        if dev == "kb" and d == "rs_to_py" and isinstance(a, dict) and isinstance(b, dict) and len(a.get("fifo") or []) > 7:
            # the Python queue holds seven events, the Rust one eight: a full Rust ring arrives without its oldest entry
            # (the queue's own overflow rule: only the oldest entries are ever dropped); everything else must be equal
            a = dict(a)
            a["fifo"] = list(a["fifo"])[-7:]
        if a != b:
            sub = _first_diff(a, b)
            V("cross_load", f"{dev}: {sub}", field=dev, sub=sub.split("=")[0][:40])
            return viols
    # `pending` is re-derived from ISR by the Rust core at the next step, so only the
    # in-handler flag (which gates timers in both machines) is compared
    if hist["writer_extra"]["in_interrupt"] != hist["reader_extra"]["in_interrupt"]:
        V("cross_load", f"in-interrupt flag written={hist['writer_extra']} loaded={hist['reader_extra']}", field="in_interrupt")
    return viols


def execute(scn: Dict[str, Any]) -> Dict[str, Any]:
    if scn.get("kind") == "cross":
        return _execute_cross(scn)
    base = machine.run_machine(scn)
    crashes = _choose_crashes(scn, base["obs"])
    scn["crashes"] = crashes      # materialise: a replay file carries the crash points themselves
    # how the bundle comes back: into a freshly constructed machine (a crash), or — one crash point in three — into
    # the *same* machine after it ran on for a few more instructions (a "load state" in a live session): whatever
    # the machine cached or accumulated meanwhile must not survive the load
    modes = scn.get("crash_modes")
    if not modes:
        modes = {}
        for k in crashes:
            rm = Rng(mix(scn["crash_seed"], "mode", k))
            modes[str(k)] = ["rewind", rm.range(1, 12)] if rm.chance(1, 3) else ["fresh"]
        scn["crash_modes"] = modes
    runs = {}
    for k in crashes:
        c = dict(scn)
        mode = modes.get(str(k), ["fresh"])
        op = [k, "restart"] if mode[0] == "fresh" else [k, "rewind", int(mode[1])]
        # the restore is applied at boundary k before that boundary's other inputs
        c["ops"] = [o for o in scn["ops"] if o[0] < k] + [op] + [o for o in scn["ops"] if o[0] >= k]
        runs[str(k)] = machine.run_machine(c)
    return {"base": base, "restored": runs, "crashes": crashes}


def _crash_state(scn, obs, k) -> str:
    o = obs[k]
    if o[O_PWR]:
        return "lowpower"
    if o[O_ININT]:
        return "in_handler"
    return "running"


def check(scn: Dict[str, Any], hist: Dict[str, Any]) -> List[Dict[str, Any]]:
    if scn.get("kind") == "cross":
        return _check_cross(scn, hist)
    viols: List[Dict[str, Any]] = []
    ex = scn["exec"]
    base = hist["base"]
    bobs = base["obs"]
    cats = _interesting(scn, bobs)
    for ks, run in hist["restored"].items():
        k = int(ks)
        robs = run["obs"]
        state = _crash_state(scn, bobs, k)
        tags = sorted(name for name, lst in cats.items() if k in lst)
        loaded = any(ev[1].get("loaded") for ev in run.get("evout", []) if isinstance(ev[1], dict))
        if not loaded:
            errs = [ev[1].get("err") for ev in run.get("evout", []) if isinstance(ev[1], dict)]
            viols.append({"cls": "load_failed", "executor": ex, "where": {"crash_state": state},
                          "msg": f"crash point {k}: bundle did not load: {errs or run.get('err')}", "at": k})
            continue
        done = False
        # the observation right after the restore (before the step) and every later boundary
        pre_b = base.get("preobs", {}).get(ks, bobs[k])
        pre_r = run.get("preobs", {}).get(ks)
        pairs = []
        if pre_r is not None:
            pairs.append((k, "after_restore", pre_b, pre_r))
        for j in range(k + 1, min(len(bobs), len(robs))):
            pairs.append((j, "boundary", bobs[j], robs[j]))
        for j, what, ob, orr in pairs:
            for name, idx in FIELDS:
                a, b = ob[idx], orr[idx]
                if name == "irq_deliveries":
                    a, b = a - bobs[k][O_IRQ], b - (pre_r[O_IRQ] if pre_r is not None else robs[k][O_IRQ])
                if a != b:
                    where = {"field": name, "crash_state": state}
                    if scn.get("dev"):
                        where["level"] = "device_machine"
                        where["at"] = "rom_stub_entry" if (j > 0 and bobs[j - 1][O_PC] in (0xEB030, 0xEB31C, 0xEB33D)) else "elsewhere"
                    viols.append({"cls": "future_diverges", "executor": ex,
                                  "where": where,
                                  "msg": f"crash point {k} ({state}; {','.join(tags) or 'plain'}): {what} {j}: {name} "
                                         f"continued={_short(a)} restored={_short(b)}", "at": j})
                    done = True
                    break
            if not done and scn["timer"]["enabled"]:
                for name, idx, p in (("next_mti", O_NMTI, scn["timer"]["mti"]), ("next_sti", O_NSTI, scn["timer"]["sti"])):
                    if p > 0 and ob[idx] != orr[idx]:
                        viols.append({"cls": "future_diverges", "executor": ex,
                                      "where": {"field": name, "crash_state": state},
                                      "msg": f"crash point {k} ({state}): {what} {j}: timer target {name} "
                                             f"continued={ob[idx]} restored={orr[idx]}", "at": j})
                        done = True
                        break
            if done:
                break
        if done:
            continue
        if len(bobs) != len(robs) or (base.get("err") or {}).get("msg") != (run.get("err") or {}).get("msg"):
            viols.append({"cls": "future_diverges", "executor": ex, "where": {"field": "run_end", "crash_state": state},
                          "msg": f"crash point {k}: runs end differently: {base.get('err')} vs {run.get('err')}", "at": k})
            continue
        fb, fr = base.get("final") or {}, run.get("final") or {}
        for dev in ("lcd", "kb", "timer", "imem"):
            if fb.get(dev) != fr.get(dev):
                sub = _first_diff(fb.get(dev), fr.get(dev))
                viols.append({"cls": "future_diverges", "executor": ex,
                              "where": {"field": f"final_{dev}", "crash_state": state, "sub": sub.split("=")[0][:40]},
                              "msg": f"crash point {k} ({state}; {','.join(tags) or 'plain'}): final {dev} state differs: {sub}",
                              "at": len(bobs)})
                break
    return viols


def _short(v):
    s = str(v)
    return s if len(s) < 80 else s[:77] + "..."


def _first_diff(a, b, path="") -> str:
    if isinstance(a, dict) and isinstance(b, dict):
        for k in sorted(set(a) | set(b)):
            if a.get(k) != b.get(k):
                return _first_diff(a.get(k), b.get(k), f"{path}.{k}" if path else str(k))
    if isinstance(a, list) and isinstance(b, list) and len(a) == len(b):
        for i, (x, y) in enumerate(zip(a, b)):
            if x != y:
                return _first_diff(x, y, f"{path}[{i}]")
    return f"{path}={_short(a)} vs {_short(b)}"


def stats(scn: Dict[str, Any], hist: Dict[str, Any]) -> Dict[str, Any]:
    if scn.get("kind") == "cross":
        w = hist["writer_obs"]
        return {"nontrivial": True, "sig": digest([scn["prog"]["image"], scn["ops"], scn["direction"]]),
                "faults": {"cross_load": 1}, "probes": {"cross_" + scn["direction"]: 1},
                "cycles": w[O_CYC], "boundaries": scn["boundaries"]}
    bobs = hist["base"]["obs"]
    cats = _interesting(scn, bobs)
    probes: Dict[str, int] = {}
    nontrivial = False
    for k in hist["crashes"]:
        for name, lst in cats.items():
            if k in lst:
                probes[name] = probes.get(name, 0) + 1
                nontrivial = True
        run = hist["restored"].get(str(k))
        if run and run["obs"] and run["obs"][-1][O_IRQ] > (run["obs"][k][O_IRQ] if k < len(run["obs"]) else 0):
            probes["delivery_after_restore"] = probes.get("delivery_after_restore", 0) + 1
    in_place = sum(1 for m in (scn.get("crash_modes") or {}).values() if m and m[0] == "rewind")
    faults = {"snapshot_restore": len(hist["crashes"]), "restore_into_used_machine": in_place}
    for op in scn["ops"]:
        faults[op[1]] = faults.get(op[1], 0) + 1
    return {"nontrivial": nontrivial, "sig": digest([scn["prog"]["image"], scn["ops"], scn["timer"], hist["crashes"]]),
            "faults": faults, "probes": probes, "cycles": (bobs[-1][O_CYC] if bobs else 0) * (1 + len(hist["crashes"])),
            "boundaries": (len(bobs) - 1) * (1 + len(hist["crashes"]))}


def sample(scn: Dict[str, Any], hist: Dict[str, Any]) -> Dict[str, Any]:
    if scn.get("kind") == "cross":
        return {"direction": scn["direction"], "boundaries": scn["boundaries"], "writer": hist["writer_obs"][:22],
                "reader": hist["reader_obs"][:22]}
    bobs = hist["base"]["obs"]
    return {"executor": scn["exec"], "timer": scn["timer"], "feat": scn["feat"], "ops": scn["ops"][:10],
            "boundaries": scn["boundaries"], "crash_points": hist["crashes"],
            "state_at_crash": [[bobs[k][O_PC], bobs[k][O_PWR], bobs[k][O_IMR], bobs[k][O_ISR]] for k in hist["crashes"] if k < len(bobs)]}


def shrink(scn: Dict[str, Any]):
    if scn.get("kind") == "cross":
        n = scn["boundaries"]
        for nb in (0, 1, n // 2, n - 1):
            if 0 <= nb < n:
                c = copy.deepcopy(scn)
                c["boundaries"] = nb
                c["ops"] = [o for o in c["ops"] if o[0] < nb]
                yield c
        for i in range(len(scn["ops"])):
            c = copy.deepcopy(scn)
            del c["ops"][i]
            yield c
        return
    # pin the crash points first so that later shrinking cannot move them
    if not scn.get("crashes"):
        return
    crashes = scn["crashes"]
    if len(crashes) > 1:
        for k in crashes:
            c = copy.deepcopy(scn)
            c["crashes"] = [k]
            yield c
    n = scn["boundaries"]
    kmax = max(crashes)
    for nb in (kmax + 2, kmax + 6, (n + kmax) // 2, n - 1):
        if kmax + 1 < nb < n:
            c = copy.deepcopy(scn)
            c["boundaries"] = nb
            c["ops"] = [o for o in c["ops"] if o[0] < nb]
            yield c
    ops = scn["ops"]
    for i in range(len(ops)):
        c = copy.deepcopy(scn)
        c["ops"] = ops[:i] + ops[i + 1:]
        yield c
    from . import c12
    for cand in c12.shrink(scn):
        if cand["boundaries"] == n and cand["ops"] == ops:
            yield cand
