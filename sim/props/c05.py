"""C05 — branch metadata given to Binary Ninja matches where execution actually goes (partial).

Claimed part (Python side; the metadata is Python): during simulated runs, for every executed
instruction the harness also asks SC62015.get_instruction_info(bytes, addr) and checks, as a
per-step invariant, that the observed successor is among the reported targets under the
actual condition outcome; and over the history that each call is paired with its return
(resume address, S, and F/IMR for interrupts) — with asynchronous interrupts delivered
inside the callee as the injected interleaving on the machine, and code placed at seeded
addresses including the last bytes of a 64 KiB page on the bare core.
Not claimed: the universal quantification over all addresses x displacements x encodings.
"""
from __future__ import annotations

import copy
from typing import Any, Dict, List, Optional

from .. import core, irqmodel, machine
from ..machine import O_F, O_IMR, O_PC, O_S
from ..rng import Rng
from ..runner import Batch, digest

ID = "C05"
TITLE = "Branch metadata given to Binary Ninja matches where execution actually goes"
RULE = ("core runs: control-flow-heavy programs (every branch/call/return encoding, PRE prefixes, operands biased to "
        "page edges) at seeded bases incl. the last bytes of a 64 KiB page, seeded flags/stack; machine runs: firmware "
        "with near/far calls, IR and timers/keys so that interrupts land inside callees; non-trivial = at least one "
        "taken branch or one call/return pair; distinct = distinct (program, state/schedule) hash")
SCHEDULE_MEASURE = "distinct (program, base address, initial state or event schedule) hashes"
COMPONENTS = {
    "real": ["sc62015/arch.py SC62015.get_instruction_info", "sc62015/pysc62015/instr/instructions.py analyze()",
             "sc62015/pysc62015/emulator.py Emulator.execute_instruction", "pce500/emulator.py PCE500Emulator.step (machine runs)",
             "sc62015/core/src/lib.rs CoreRuntime::step + sc62015/core/src/sio.rs SioStub (rs-sio: returns performed by the ROM stub on a "
             "machine configured by DeviceModel::configure_runtime)"],
    "stub": ["binja_test_mocks (InstructionInfo, BranchType, LLIL evaluator)", "the metadata is Python; the Rust machine appears only in the call/return pairing of rs-sio"],
}
ASSUMPTIONS = ["call/return pairing is judged only when the callee left S where the call put it and did not overwrite the "
               "return frame", "RESET reports an unresolved branch and is not judged"]
PROBES = ["cond_taken", "cond_not_taken", "uncond", "call", "ret_paired", "retf_paired", "reti_paired", "page_edge_code",
          "irq_inside_callee", "indirect_jump", "ir", "space_end_code", "code_patched_in_place", "rom_routine_return",
          "routine_inside_outer_far", "routine_inside_outer_near"]
COND = {0x14: ("Z", 1), 0x15: ("Z", 0), 0x16: ("C", 1), 0x17: ("C", 0), 0x18: ("Z", 1), 0x19: ("Z", 1), 0x1A: ("Z", 0),
        0x1B: ("Z", 0), 0x1C: ("C", 1), 0x1D: ("C", 1), 0x1E: ("C", 0), 0x1F: ("C", 0)}
CTRL_OPS = [0x02, 0x03, 0x04, 0x05, 0x06, 0x07, 0x10, 0x11, 0x12, 0x13, 0x14, 0x15, 0x16, 0x17, 0x18, 0x19, 0x1A, 0x1B, 0x1C,
            0x1D, 0x1E, 0x1F, 0x01, 0xFE]
_ARCH = None


def _arch():
    global _ARCH
    if _ARCH is None:
        from binja_test_mocks import binja_api  # noqa: F401
        import sc62015.arch as arch
        _ARCH = arch.SC62015()
    return _ARCH


def batches(tier: str) -> List[Batch]:
    # rs-sio: call/return pairing on a Rust machine put together by DeviceModel::configure_runtime, where the ROM's
    # serial routines are answered by a stub that performs the routine's *return* itself
    if tier == "quick":
        return [Batch("core", "py-core", 4000, 25), Batch("machine", "py-machine", 480, 6), Batch("rs-sio", "rs-machine", 3000, 100)]
    return [Batch("core", "py-core", 250000, 100), Batch("machine", "py-machine", 20000, 10), Batch("rs-sio", "rs-machine", 60000, 500)]


SIO_ROUTINES = [0xEB030, 0xEB31C, 0xEB33D]


def _gen_sio(r: Rng) -> Dict[str, Any]:
    """Firmware on a device-configured Rust machine: optional outer call (near / far), then an inner call that reaches
    one of the ROM's serial routines — directly (CALLF routine), or through a helper entered by a near or far call that
    tail-jumps into it — or an ordinary callee as control.  The routine's return (performed by the stub) must lead to the
    instruction after the innermost call, with S where it was before that call."""
    from .. import progen
    base = progen.CODE_BASE
    code: List[int] = []
    ins: Dict[str, list] = {}
    fix: List[tuple] = []

    def emit(bs, tag=""):
        at = len(code)
        ins[str(base + at)] = [len(bs), tag]
        code.extend(bs)
        return at

    def nops(lo, hi):
        for _ in range(r.range(lo, hi)):
            emit([0x00], "NOP")

    outer = r.choice(["none", "near", "far", "far"])
    inner = r.choice(["callf_direct", "near_helper", "far_helper", "near_helper", "plain_near", "plain_far", "near_direct"])
    routine = r.choice(SIO_ROUTINES)
    if inner in ("near_helper", "near_direct"):
        # a near call returns within the page it was made on: firmware that reaches the routines (page 0xE) by near
        # calls lives on that page itself
        base = 0xE0200 + 0x10 * r.below(16)
    nops(1, 3)
    if outer != "none":
        fix.append((emit([0x04, 0, 0] if outer == "near" else [0x05, 0, 0, 0], "CALL:outer" if outer == "near" else "CALLF:outer"), "O"))
    nops(2, 5)
    emit([0x13, 0x02], "STAY")                     # JR -2
    labels: Dict[str, int] = {}
    if outer != "none":
        labels["O"] = len(code)
        nops(0, 2)
    # inner call (in the outer routine, or in the main line when there is none)
    calls = r.range(1, 2)
    for _ in range(calls):
        if inner == "callf_direct":
            emit([0x05, routine & 0xFF, (routine >> 8) & 0xFF, (routine >> 16) & 0xFF], "CALLF:routine")
        elif inner == "near_direct":
            emit([0x04, routine & 0xFF, (routine >> 8) & 0xFF], "CALL:routine")
        elif inner in ("near_helper", "plain_near"):
            fix.append((emit([0x04, 0, 0], "CALL:inner"), "H"))
        else:
            fix.append((emit([0x05, 0, 0, 0], "CALLF:inner"), "H"))
        nops(1, 2)
    if outer != "none":
        emit([0x06] if outer == "near" else [0x07], "RET" if outer == "near" else "RETF")
    else:
        emit([0x13, 0x02], "STAY")
    labels["H"] = len(code)
    nops(0, 2)
    if inner in ("near_helper", "far_helper", "near_direct", "callf_direct"):
        emit([0x03, routine & 0xFF, (routine >> 8) & 0xFF, (routine >> 16) & 0xFF], "JPF:routine")
    elif inner == "plain_near":
        emit([0x06], "RET")
    else:
        emit([0x07], "RETF")
    for at, lab in fix:
        tgt = base + labels[lab]
        if code[at] == 0x04:
            code[at + 1], code[at + 2] = tgt & 0xFF, (tgt >> 8) & 0xFF
        else:
            code[at + 1], code[at + 2], code[at + 3] = tgt & 0xFF, (tgt >> 8) & 0xFF, (tgt >> 16) & 0xFF
    n = 40
    prog = {"image": [[base, code]], "rom_tail": [0, 0, 0, base & 0xFF, (base >> 8) & 0xFF, (base >> 16) & 0xFF],
            "entry": base, "main": base, "handler": base, "code": [base, 0xFFFFF], "ins": ins, "style": "sio"}
    return {"kind": "sio", "exec": "rs-machine", "device": r.choice(["pce500", "pce500", "jp"]), "prog": prog,
            "regs": {"PC": base, "S": progen.S_INIT - r.below(8), "U": progen.U_INIT, "BA": r.below(0x10000), "I": 0, "X": 0, "Y": 0,
                     "F": r.below(4)},
            "imem": [[progen.IMR, 0], [progen.ISR, 0]], "timer": {"enabled": False, "mti": 0, "sti": 0},
            "kb": {"press": 1, "release": 1, "repeat_delay": 24, "repeat_interval": 6, "active_high": True},
            "boundaries": n, "ops": [], "watch": [], "feat": {}, "faulty": False,
            "shape": [outer, inner, routine]}


def _check_sio(scn: Dict[str, Any], hist: Dict[str, Any]) -> List[Dict[str, Any]]:
    viols: List[Dict[str, Any]] = []
    probes: Dict[str, int] = {}
    hist["_probes"] = probes
    obs = hist["obs"]
    ins = scn["prog"]["ins"]
    img = irqmodel.image_bytes(scn)
    frames: List[Dict[str, Any]] = []

    def V(cls, k, msg, **where):
        viols.append({"cls": cls, "executor": "rs-machine", "where": where, "msg": f"boundary {k}: {msg}", "at": k})

    for k in range(len(obs) - 1):
        pc, s = obs[k][O_PC], obs[k][O_S] & 0xFFFFF
        nxt, s2 = obs[k + 1][O_PC], obs[k + 1][O_S] & 0xFFFFF
        ent = ins.get(str(pc))
        tag = ent[1] if ent else ""
        if pc in SIO_ROUTINES or tag in ("RET", "RETF"):
            how = "rom_routine" if pc in SIO_ROUTINES else tag
            if pc in SIO_ROUTINES:
                probes["rom_routine_return"] = probes.get("rom_routine_return", 0) + 1
            if not frames:
                continue
            fr = frames.pop()
            probes["ret_paired" if fr["w"] == 2 else "retf_paired"] = probes.get("ret_paired" if fr["w"] == 2 else "retf_paired", 0) + 1
            if pc in SIO_ROUTINES and len(frames) >= 1:
                probes["routine_inside_outer_" + ("far" if frames[-1]["w"] == 3 else "near")] = 1
            if nxt != fr["ret"]:
                V("call_return", k, f"return ({how}) from the call at {fr['at']:#x} ({'CALL' if fr['w'] == 2 else 'CALLF'}) went to "
                  f"{nxt:#x}, the instruction after the call is {fr['ret']:#x}", field="resume_pc", kind=how, shape="/".join(map(str, scn["shape"][:2])))
                break
            if s2 != fr["s"]:
                V("call_return", k, f"return ({how}) from the call at {fr['at']:#x} left S={s2:#x}, before the call it was {fr['s']:#x}",
                  field="S", kind=how, shape="/".join(map(str, scn["shape"][:2])))
                break
        elif tag.startswith("CALLF") or tag.startswith("CALL"):
            w = 3 if tag.startswith("CALLF") else 2
            probes["call"] = probes.get("call", 0) + 1
            frames.append({"at": pc, "ret": (pc + (4 if w == 3 else 3)) & 0xFFFFF, "w": w, "s": s})
            if s2 != ((s - w) & 0xFFFFF):
                V("call_return", k, f"{tag} at {pc:#x} moved S from {s:#x} to {s2:#x}", field="S", kind="call", shape="/".join(map(str, scn["shape"][:2])))
                break
    return viols


def _gen_cf_program(r: Rng, base: int, n: int):
    code: List[int] = []
    starts: List[int] = []
    while len(starts) < n:
        addr = base + len(code)
        want = r.choice(CTRL_OPS) if r.chance(1, 2) else None
        ins = core.gen_instruction(r, addr, opcode=want)
        if ins is None:
            continue
        pre = ins[0] in core.PRES
        op = ins[1] if pre and len(ins) > 1 else ins[0]
        if op in (0x02, 0x04, 0x14, 0x15, 0x16, 0x17) and len(ins) >= 3 and starts and r.chance(3, 4):
            tgt = base + r.choice(starts)
            ins[-2], ins[-1] = tgt & 0xFF, (tgt >> 8) & 0xFF
        if op in (0x03, 0x05) and len(ins) >= 4 and starts and r.chance(3, 4):
            tgt = base + r.choice(starts)
            ins[-3], ins[-2], ins[-1] = tgt & 0xFF, (tgt >> 8) & 0xFF, (tgt >> 16) & 0x0F
        if 0x12 <= op <= 0x1F and op not in (0x14, 0x15, 0x16, 0x17) and len(ins) >= 2:
            ins[-1] = r.choice([0, 1, 2, 3, 5, 8, 0x7F, 0x80, 0xFF, r.range(0, 16)])
        starts.append(len(code))
        code.extend(ins)
    # structured tail: call sites whose callees are stack-neutral blocks ending in the matching return, so that
    # call/return pairing is exercised at this base address (incl. across the end of a 64 KiB page)
    tail_calls = []
    for kind in r.shuffle(["near", "far", "near", "ir"])[: r.range(1, 3)]:
        starts.append(len(code))
        tail_calls.append((len(code), kind))
        code.extend({"near": [0x04, 0, 0], "far": [0x05, 0, 0, 0], "ir": [0xFE]}[kind])
        starts.append(len(code))
        code.append(0x00)
    starts.append(len(code))
    code.extend([0x12, 0x00])                 # JR +0: fall into the padding, the run ends when PC leaves the program
    handler = None
    for off, kind in tail_calls:
        tgt = base + len(code)
        for _ in range(r.range(0, 2)):
            starts.append(len(code))
            # NOP / SC / RC, and sometimes HALT / OFF: the bare core keeps executing when asked to (waking is the
            # machine's business), so a callee that halts must still return to its caller
            code.append(r.choice([0x00, 0x97, 0x9F, 0x00, 0x97, 0x9F, 0xDE, 0xDF]))
        starts.append(len(code))
        code.append({"near": 0x06, "far": 0x07, "ir": 0x01}[kind])
        if kind == "near":
            code[off + 1], code[off + 2] = tgt & 0xFF, (tgt >> 8) & 0xFF
        elif kind == "far":
            code[off + 1], code[off + 2], code[off + 3] = tgt & 0xFF, (tgt >> 8) & 0xFF, (tgt >> 16) & 0x0F
        else:
            handler = tgt
    code.extend([0x00] * 16)
    return code, starts, handler


def generate(batch: str, r: Rng, idx: int, tier: str) -> Dict[str, Any]:
    if batch == "rs-sio":
        return _gen_sio(r)
    if batch == "machine":
        feat = machine.gen_features(r.child("feat"), {"timers": True, "keys": True, "onk": True, "imr_writes": True,
                                                      "isr_writes": False, "wait": True, "halt": False, "off": False,
                                                      "ir": True, "calls": True, "far_calls": True, "nested": False})
        feat.update({"calls": True, "timers": True})
        scn = machine.gen_machine_scenario(r, "py-machine", feat, boundaries=r.choice([60, 120, 200]), faulty=True)
        scn["imem"] = [[0xFB, r.choice([0x8F, 0x83, 0x8F, 0x81])], [0xFC, 0]]
        scn["kind"] = "machine"
        return scn
    # bases: ordinary, the last bytes of a 64 KiB page, and both ends of the 20-bit space (relative jumps there
    # wrap modulo 2^20: backwards below 0x00000, forwards over 0xFFFFF)
    rt = r.child("top")
    if rt.chance(1, 8):
        # a control transfer whose own bytes run over the top of the 20-bit space: its operand bytes are the ones that
        # follow linearly (the first cells of the internal memory, as the metadata's byte string has them), not the
        # bytes at 0x00000
        form = rt.choice([[0x12, 0], [0x13, 0], [0x18, 0], [0x19, 0], [0x1A, 0], [0x1B, 0], [0x1C, 0], [0x1E, 0], [0x02, 0, 0],
                          [0x04, 0, 0], [0x14, 0, 0], [0x16, 0, 0], [0x03, 0, 0, 0], [0x05, 0, 0, 0]])
        ins = [form[0]] + [rt.below(256) for _ in form[1:]]
        if form[0] in (0x03, 0x05):
            ins[3] &= 0x0F
        start = 0x100000 - rt.range(1, len(ins) - 1)
        k = rt.range(0, 3)
        base = start - k
        code = [0x00] * k + ins
        st = core.gen_state(r.child("state"))
        st["regs"]["PC"] = base
        tail = code[0x100000 - base:]
        for i, b in enumerate(tail):
            st["imem"][i] = b
        low = [(b ^ rt.range(1, 255)) & 0xFF for b in tail] + [0x00] * 4
        return {"kind": "core", "exec": "py-core", "base": base, "code": code, "starts": list(range(k)) + [k], "state": st,
                "steps": k + 2, "vector": None, "low": low, "top": True}
    base = r.choice([0x01000, 0x0FFC0, 0x0FFE8, 0x1FFD0, 0x2FF00, 0xFFF00 - 0x400, 0x0FFF8, 0x00000, 0xFFF00, 0xFFF60])
    n = r.choice([4, 12, 30])
    code, starts, handler = _gen_cf_program(r.child("prog"), base, n)
    if base >= 0xFFF00 and base + len(code) > 0xFFFF0:
        # keep the program below the interrupt vector at 0xFFFFA
        code, starts, handler = _gen_cf_program(r.child("prog-short"), base, 4)
        if base + len(code) > 0xFFFF0:
            base = 0xFFF00 - 0x400
            code, starts, handler = _gen_cf_program(r.child("prog-moved"), base, n)
    st = core.gen_state(r.child("state"))
    st["regs"]["PC"] = base
    rf = r.child("flagbyte")
    if rf.chance(1, 4):
        # the whole flag byte as a register file handed over from outside has it (a stepper snapshot, a bundle
        # written by the Rust core): carry and zero are bits 0 and 1 whatever the other six bits hold
        st["regs"]["F"] = rf.below(256)
    scn = {"kind": "core", "exec": "py-core", "base": base, "code": code, "starts": starts, "state": st,
           "steps": r.choice([20, 60, 120]), "vector": handler}
    # code patched in place between two passes over the same emulator (a RAM jump table, a relocating loader):
    # operands of control transfers are rewritten, the opcode bytes stay
    if r.chance(1, 3):
        rp = r.child("patch")
        patches = []
        for off in rp.shuffle(list(starts))[:12]:
            b0 = code[off]
            pre = b0 in core.PRES
            op = code[off + 1] if pre and off + 1 < len(code) else b0
            o = off + (1 if pre else 0)
            if op in (0x02, 0x04, 0x14, 0x15, 0x16, 0x17) and o + 2 < len(code):
                tgt = base + rp.choice(starts)
                patches.append([o + 1, [tgt & 0xFF, (tgt >> 8) & 0xFF]])
            elif op in (0x03, 0x05) and o + 3 < len(code):
                tgt = base + rp.choice(starts)
                patches.append([o + 1, [tgt & 0xFF, (tgt >> 8) & 0xFF, (tgt >> 16) & 0x0F]])
            elif 0x12 <= op <= 0x1F and op not in (0x14, 0x15, 0x16, 0x17) and o + 1 < len(code):
                patches.append([o + 1, [rp.choice([0, 1, 2, 3, 5, 8, rp.range(0, 16)])]])
            if len(patches) >= 3:
                break
        if patches:
            scn["patches"] = patches
    return scn


# ----------------------------------------------------------------------------------------


def _info(bs: List[int], addr: int):
    info = _arch().get_instruction_info(bytes(bs), addr)
    if info is None:
        return None
    return {"length": info.length, "branches": [[b.type.name, b.target] for b in info.branches]}


def execute(scn: Dict[str, Any]) -> Dict[str, Any]:
    if scn["kind"] == "sio":
        h = machine.run_machine(scn)
        return {"obs": [o[:machine.O_SHADOW] for o in h["obs"]], "err": h["err"]}
    if scn["kind"] == "machine":
        hist = machine.run_machine(scn)
        img = irqmodel.image_bytes(scn)
        infos: Dict[str, Any] = {}
        for a in scn["prog"]["ins"]:
            a = int(a)
            bs = [img.get(a + i, 0) for i in range(7)]
            infos[str(a)] = _info(bs, a)
        hist["infos"] = infos
        return hist
    from sc62015.pysc62015.emulator import RegisterName as R
    emu, bus = core.new_py_core(scn)
    if scn.get("vector") is not None:
        v = scn["vector"]
        bus.load(0xFFFFA, [v & 0xFF, (v >> 8) & 0xFF, (v >> 16) & 0xFF])
    if scn.get("low"):
        bus.load(0x00000, scn["low"])
    lo, hi = scn["base"], scn["base"] + len(scn["code"]) - 1
    out: List[dict] = []
    passes = [scn["steps"]] + ([scn["steps"]] if scn.get("patches") else [])
    for pno, nsteps in enumerate(passes):
        if pno == 1:
            if any(o.get("err") or o.get("info") is None or "info_error" in o for o in out):
                break
            # second pass over the same emulator object: operands rewritten through the bus, PC back at the start
            for off, data in scn["patches"]:
                for i, b in enumerate(data):
                    bus.wr(scn["base"] + off + i, b)
            emu.regs.set(R.PC, scn["base"])
            emu.state.halted = False
            out.append({"marker": "patched"})
        _run_pass(emu, bus, R, lo, hi, nsteps, out)
    return {"steps": out}


def _run_pass(emu, bus, R, lo, hi, nsteps, out) -> None:
    for _ in range(nsteps):
        pc = emu.regs.get(R.PC) & 0xFFFFF
        if not (lo <= pc <= hi):
            break
        bs = [bus.rd(pc + i) for i in range(7)]
        first = bs[1] if bs[0] in core.PRES else bs[0]
        if first in core.BLOCK_OPS and emu.regs.get(R.I) > 0x400:
            break           # cost bound: the Python core needs milliseconds per iteration of a block instruction
        fc, fz = emu.regs.get(R.FC), emu.regs.get(R.FZ)
        s_before = emu.regs.get(R.S)
        f_before = emu.regs.get(R.F)
        imr_before = bus.imem[0xFB]
        try:
            info = _info(bs, pc)
        except Exception as e:
            out.append({"pc": pc, "bytes": bs, "info_error": f"{type(e).__name__}: {e}"})
            break
        bus.writes = {}
        try:
            emu.execute_instruction(pc)
            err = None
        except Exception as e:
            err = f"{type(e).__name__}: {e}"
        s_after = emu.regs.get(R.S)
        out.append({"pc": pc, "bytes": bs, "info": info, "fc": fc, "fz": fz, "s": s_before, "f": f_before, "imr": imr_before,
                    "next": emu.regs.get(R.PC) & 0xFFFFF, "s_after": s_after, "f_after": emu.regs.get(R.F),
                    "imr_after": bus.imem[0xFB], "writes": sorted(bus.writes), "err": err,
                    "stack": [bus.rd((s_after + i) & 0xFFFFF) for i in range(5)]})
        if err or info is None:
            break


def _op_of(bs: List[int]):
    pre = bs[0] in core.PRES
    return (bs[1] if pre else bs[0]), pre


def _judge(pc: int, bs: List[int], info, fc: int, fz: int, nxt: int, V, k: int, probes: Dict[str, int]) -> None:
    op, pre = _op_of(bs)
    ln = info["length"]
    br = info["branches"]
    fall = (pc + ln) & 0xFFFFF
    kinds = [b[0] for b in br]

    def probe(n):
        probes[n] = probes.get(n, 0) + 1

    if op in (0x10, 0x11):
        probe("indirect_jump")
    if not br:
        if op == 0xFE:
            return          # IR: judged through its pushed return address (pairing)
        if nxt != fall:
            V("silent_transfer", k, f"{_hex(bs[:ln])} at {pc:#x} reports no branch but execution continued at {nxt:#x} "
              f"(fall-through {fall:#x})", opcode=f"{op:02X}")
        return
    if "UnresolvedBranch" in kinds or "FunctionReturn" in kinds:
        return
    tgt = {b[0]: (b[1] & 0xFFFFF if b[1] is not None else None) for b in br}
    if "UnconditionalBranch" in tgt:
        probe("uncond")
        if nxt != tgt["UnconditionalBranch"]:
            V("target_mismatch", k, f"{_hex(bs[:ln])} at {pc:#x} reports unconditional target {tgt['UnconditionalBranch']:#x}, "
              f"execution went to {nxt:#x}", kind="unconditional", opcode=f"{op:02X}")
    elif "CallDestination" in tgt:
        probe("call")
        if nxt != tgt["CallDestination"]:
            V("target_mismatch", k, f"{_hex(bs[:ln])} at {pc:#x} reports call destination {tgt['CallDestination']:#x}, "
              f"execution went to {nxt:#x}", kind="call", opcode=f"{op:02X}")
    elif "TrueBranch" in tgt or "FalseBranch" in tgt:
        cond = COND.get(op)
        if cond is None:
            return
        held = (fz if cond[0] == "Z" else fc) == cond[1]
        want = tgt.get("TrueBranch") if held else tgt.get("FalseBranch")
        probe("cond_taken" if held else "cond_not_taken")
        if want is None or nxt != want:
            V("target_mismatch", k, f"{_hex(bs[:ln])} at {pc:#x}: condition {'held' if held else 'failed'} (C={fc} Z={fz}), "
              f"reported {'taken' if held else 'fall-through'} target {want if want is None else hex(want)}, execution went to {nxt:#x}",
              kind="conditional_taken" if held else "conditional_fallthrough", opcode=f"{op:02X}")


def _hex(bs):
    return " ".join(f"{b:02X}" for b in bs)


def check(scn: Dict[str, Any], hist: Dict[str, Any]) -> List[Dict[str, Any]]:
    if scn["kind"] == "sio":
        return _check_sio(scn, hist)
    ex = scn["exec"]
    viols: List[dict] = []
    probes: Dict[str, int] = {}
    hist["_probes"] = probes
    seen = set()

    def V(cls, k, msg, **where):
        key = (cls, tuple(sorted(where.items())))
        if key in seen:
            return
        seen.add(key)
        viols.append({"cls": cls, "executor": ex, "where": where, "msg": f"step {k}: {msg}", "at": k})

    def probe(n):
        probes[n] = probes.get(n, 0) + 1

    if scn["kind"] == "core":
        if scn["base"] & 0xFFFF > 0xFF00 or (scn["base"] + len(scn["code"])) >> 16 != scn["base"] >> 16:
            probe("page_edge_code")
        frames: List[dict] = []
        if scn["base"] == 0 or scn["base"] >= 0xFFF00:
            probe("space_end_code")
        for k, st in enumerate(hist["steps"]):
            if st.get("marker") == "patched":
                probe("code_patched_in_place")
                frames.clear()
                continue
            if "info_error" in st:
                V("unexpected_exception", k, f"get_instruction_info raised {st['info_error']} on {_hex(st['bytes'])}")
                break
            if st["info"] is None or st["err"]:
                break
            bs, pc = st["bytes"], st["pc"]
            op, pre = _op_of(bs)
            _judge(pc, bs, st["info"], st["fc"], st["fz"], st["next"], V, k, probes)
            ln = st["info"]["length"]
            # frames touched by this instruction's stores are no longer judged
            for fr in frames:
                if any(fr["lo"] <= a < fr["hi"] for a in st["writes"]) and fr["k"] != k:
                    fr["dirty"] = True
            if op in (0x04, 0x05, 0xFE):
                size = {0x04: 2, 0x05: 3, 0xFE: 5}[op]
                frames.append({"op": op, "ret": (pc + ln) & 0xFFFFF, "s": st["s"], "f": st["f"], "imr": st["imr"], "k": k,
                               "lo": (st["s"] - size) & 0xFFFFF, "hi": st["s"] & 0xFFFFF, "size": size, "dirty": False,
                               "page": pc & 0xF0000})
                if frames[-1]["lo"] > frames[-1]["hi"] or st["s"] > 0xFFFFF:
                    # a frame that straddles the end of the 20-bit space is not judged (what lies "beyond 0xFFFFF"
                    # is a property of the bus, not of the call/return pairing)
                    frames[-1]["dirty"] = True
                if op == 0xFE:
                    probe("ir")
                    pushed = st["stack"]
                    got = pushed[2] | (pushed[3] << 8) | (pushed[4] << 16)
                    if st["s_after"] == ((st["s"] - 5) & 0xFFFFF) and not frames[-1]["dirty"] and \
                            (got & 0xFFFFF) != ((pc + ln) & 0xFFFFF):
                        V("call_return", k, f"IR at {pc:#x} pushed return address {got:#x}, expected {(pc + ln) & 0xFFFFF:#x}",
                          field="ir_return_address")
            elif op in (0x06, 0x07, 0x01) and frames:
                want_op = {0x06: 0x04, 0x07: 0x05, 0x01: 0xFE}[op]
                fr = frames[-1]
                if fr["op"] == want_op and not fr["dirty"] and st["s"] == fr["lo"]:
                    frames.pop()
                    probe({0x06: "ret_paired", 0x07: "retf_paired", 0x01: "reti_paired"}[op])
                    exp_pc = fr["ret"] if op != 0x06 else ((pc & 0xF0000) | (fr["ret"] & 0xFFFF))
                    if op == 0x06 and ((pc & 0xF0000) != fr["page"] or (pc & 0xFFFF) == 0xFFFF):
                        # near return executed from another page: the architecture resumes in the current page.  A RET
                        # that is the last byte of a page is not judged either: "current page" is the page of the
                        # instruction for CALL and of its successor for RET in this code base, and the property does not
                        # say which the return should use
                        pass
                    elif st["next"] != exp_pc:
                        V("call_return", k, f"return at {pc:#x} resumed at {st['next']:#x}, the call at step {fr['k']} "
                          f"expects {exp_pc:#x}", field="resume_pc", kind=f"{op:02X}")
                    if st["s_after"] != fr["s"]:
                        V("call_return", k, f"return at {pc:#x} left S={st['s_after']:#x}, before the call it was {fr['s']:#x}",
                          field="S", kind=f"{op:02X}")
                    if op == 0x01:
                        if st["f_after"] != fr["f"]:
                            V("call_return", k, f"RETI restored F={st['f_after']:#04x}, expected {fr['f']:#04x}", field="F", kind="01")
                        if st["imr_after"] != fr["imr"]:
                            V("call_return", k, f"RETI restored IMR={st['imr_after']:#04x}, expected {fr['imr']:#04x}",
                              field="IMR", kind="01")
                else:
                    frames.clear()
        return viols

    # machine: per-step successor check + call/return pairing with interrupts landing inside callees
    steps = irqmodel.build_steps(scn, hist)
    img = irqmodel.image_bytes(scn)
    infos = hist["infos"]
    frames = []
    irq_depth = 0
    for st in steps:
        k = st["k"]
        if st["delivered"]:
            if any(f["op"] in (0x04, 0x05) for f in frames):
                probe("irq_inside_callee")
            frames.append({"op": "hw", "k": k})
            continue      # the executed instruction was the handler's first NOP
        a = st["ex_addr"]
        if a is None or not st["executed"]:
            continue
        info = infos.get(str(a))
        if info is None:
            continue
        bs = [img.get(a + i, 0) for i in range(7)]
        pre, post = st["pre"], st["post"]
        _judge(a, bs, info, pre[O_F] & 1, (pre[O_F] >> 1) & 1, post[O_PC], V, k, probes)
        op, _ = _op_of(bs)
        ln = info["length"]
        if op in (0x04, 0x05):
            frames.append({"op": op, "ret": (a + ln) & 0xFFFFF, "s": pre[O_S] & 0xFFFFF, "k": k})
        elif op == 0xFE:
            frames.append({"op": 0xFE, "ret": (a + ln) & 0xFFFFF, "s": pre[O_S] & 0xFFFFF, "f": pre[O_F], "imr": pre[O_IMR], "k": k})
            probe("ir")
        elif op in (0x06, 0x07) and frames:
            fr = frames[-1]
            if fr["op"] == {0x06: 0x04, 0x07: 0x05}[op]:
                frames.pop()
                probe("ret_paired" if op == 0x06 else "retf_paired")
                if post[O_PC] != fr["ret"]:
                    V("call_return", k, f"return at {a:#x} resumed at {post[O_PC]:#x}, call at boundary {fr['k']} expects "
                      f"{fr['ret']:#x}", field="resume_pc", kind=f"{op:02X}")
                if (post[O_S] & 0xFFFFF) != fr["s"]:
                    V("call_return", k, f"return at {a:#x} left S={post[O_S]:#x}, before the call {fr['s']:#x}", field="S",
                      kind=f"{op:02X}")
            else:
                frames.clear()
        elif op == 0x01 and frames:
            fr = frames.pop()
            if fr["op"] == 0xFE:
                probe("reti_paired")
                if post[O_PC] != fr["ret"]:
                    V("call_return", k, f"RETI resumed at {post[O_PC]:#x}, IR at boundary {fr['k']} expects {fr['ret']:#x}",
                      field="resume_pc", kind="01")
                if (post[O_S] & 0xFFFFF) != fr["s"] or post[O_F] != fr["f"] or post[O_IMR] != fr["imr"]:
                    V("call_return", k, f"RETI after IR: S/F/IMR = {post[O_S]:#x}/{post[O_F]:#x}/{post[O_IMR]:#x}, expected "
                      f"{fr['s']:#x}/{fr['f']:#x}/{fr['imr']:#x}", field="S_F_IMR", kind="01")
    return viols


def stats(scn: Dict[str, Any], hist: Dict[str, Any]) -> Dict[str, Any]:
    probes = dict(hist.get("_probes") or {})
    if scn["kind"] == "sio":
        return {"nontrivial": bool(probes.get("rom_routine_return") or probes.get("ret_paired") or probes.get("retf_paired")),
                "sig": digest([scn["prog"]["image"], scn["regs"], scn["device"]]), "faults": {}, "probes": probes,
                "cycles": len(hist["obs"]), "boundaries": len(hist["obs"]) - 1}
    nontrivial = any(probes.get(k) for k in ("cond_taken", "uncond", "ret_paired", "retf_paired", "reti_paired"))
    if scn["kind"] == "machine":
        obs = hist["obs"]
        faults: Dict[str, int] = {"irq_inside_callee": probes.get("irq_inside_callee", 0)}
        return {"nontrivial": nontrivial, "sig": digest([scn["prog"]["image"], scn["ops"], scn["timer"]]), "faults": faults,
                "probes": probes, "cycles": obs[-1][machine.O_CYC] if obs else 0, "boundaries": len(obs) - 1}
    return {"nontrivial": nontrivial, "sig": digest([scn["code"], scn["base"], scn["state"]["regs"], scn.get("patches")]),
            "faults": {"code_patched_in_place": probes.get("code_patched_in_place", 0)}, "probes": probes, "cycles": len(hist["steps"]), "boundaries": len(hist["steps"])}


def sample(scn: Dict[str, Any], hist: Dict[str, Any]) -> Dict[str, Any]:
    if scn["kind"] == "sio":
        return {"executor": scn["exec"], "shape": scn["shape"], "device": scn["device"],
                "pc_s": [[hex(o[O_PC]), hex(o[O_S])] for o in hist["obs"][:16]]}
    if scn["kind"] == "machine":
        return {"executor": scn["exec"], "timer": scn["timer"], "ops": scn["ops"][:8], "boundaries": scn["boundaries"]}
    return {"base": hex(scn["base"]), "code_hex": _hex(scn["code"][:40]),
            "steps": [[hex(s["pc"]), _hex(s["bytes"][:4]), s.get("info"), hex(s.get("next", 0))] for s in hist["steps"][:8]
                      if "pc" in s]}


def shrink(scn: Dict[str, Any]):
    if scn["kind"] == "sio":
        n = scn["boundaries"]
        for nb in (n // 2, n - 4):
            if 4 <= nb < n:
                c = copy.deepcopy(scn)
                c["boundaries"] = nb
                yield c
        return
    if scn["kind"] == "machine":
        from . import c12
        yield from c12.shrink(scn)
        return
    if scn.get("patches"):
        c = copy.deepcopy(scn)
        del c["patches"]
        yield c
        for i in range(len(scn["patches"])):
            if len(scn["patches"]) > 1:
                c = copy.deepcopy(scn)
                del c["patches"][i]
                yield c
    s = scn["steps"]
    for ns in (s // 2, s - 1):
        if 1 <= ns < s:
            c = copy.deepcopy(scn)
            c["steps"] = ns
            yield c
    starts = scn["starts"]
    for i, off in enumerate(starts):
        end = starts[i + 1] if i + 1 < len(starts) else len(scn["code"]) - 16
        if all(b == 0 for b in scn["code"][off:end]):
            continue
        c = copy.deepcopy(scn)
        for j in range(off, end):
            c["code"][j] = 0
        yield c
