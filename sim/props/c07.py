"""C07 — an instruction's effect depends only on architectural state.

History independence on each core: replica A is fresh, gets the architectural state sigma and
executes the focus instructions X; replica B first runs an unrelated seeded prefix program
(block instructions that dirty TEMP registers, unbalanced near/far calls that dirty the
call bookkeeping, several pages), is then *scrambled* through the public setters (random
TEMP0-13, call depth/levels/pages/frames, perf counter), has sigma imposed on its
architectural state only, and executes X.  A and B must be indistinguishable.  Split runs:
N+M boundaries in one call equal N then M.  Fresh emulators repeat each other exactly.
"""
from __future__ import annotations

import copy
from typing import Any, Dict, List

from .. import core, machine, progen
from ..rng import Rng
from ..rshost import host
from ..runner import Batch, digest

ID = "C07"
TITLE = "An instruction's effect depends only on architectural state"
RULE = ("history runs: sigma (registers, flags, internal memory, data, stacks) x focus program X of 1-6 valid instructions "
        "(biased to RET/RETF/RETI, block, BCD, exchange, push/pop and 20-bit arithmetic encodings) x a prefix program of "
        "10-60 instructions from another state x a hidden-state scramble; non-trivial = the prefix executed at least 3 "
        "instructions and X at least one; distinct = distinct (prefix, sigma, X) hash. split runs: generated firmware "
        "with timers (self-patching code included), N+M vs N then M on each machine; stepper runs: one CPUStepper over a "
        "sequence of unrelated (registers, sparse image) requests next to a fresh one per request")
SCHEDULE_MEASURE = "distinct (prefix program, scramble, sigma, focus) hashes"
COMPONENTS = {
    "real": ["sc62015/pysc62015/emulator.py Emulator/Registers + cached_decoder.py + instr lifting",
             "sc62015/core/src/llama/{eval,state}.rs LlamaExecutor/LlamaState", "PCE500Emulator.run/step, CoreRuntime::step(n)",
             "sc62015/core/src/device.rs DeviceModel::configure_runtime + sc62015/core/src/sio.rs SioStub (device-configured "
             "Rust machine whose firmware reaches the ROM's serial routines)",
             "sc62015/pysc62015/stepper.py CPUStepper.step (py-stepper)"],
    "stub": ["binja_test_mocks LLIL evaluator", "flat bus (see C06)"],
}
ASSUMPTIONS = ["TEMP registers, call-depth counters and perf counters themselves are not compared (they are the hidden state)"]
PROBES = ["machine_history", "rom_stub_reached", "prefix_block", "prefix_call", "scramble", "focus_ret", "focus_block", "split_in_handler",
          "repeat_identical", "tracing_on_off", "stepper_reused"]
FOCUS_OPS = [0x06, 0x07, 0x01, 0x04, 0x05, 0xCB, 0xCF, 0xD3, 0xDB, 0xE3, 0xEB, 0xF3, 0xFB, 0x54, 0x55, 0x5C, 0x5D, 0xC4, 0xC5,
             0xD4, 0xD5, 0xEC, 0xFC, 0xC0, 0xC1, 0xC2, 0xC3, 0xDD, 0xED, 0x6C, 0x7C, 0x28, 0x29, 0x2A, 0x2B, 0x2C, 0x2D, 0x2E, 0x2F,
             0x38, 0x39, 0x3A, 0x3B, 0x3C, 0x3D, 0x3E, 0x3F, 0x44, 0x45, 0x46, 0x4C, 0x4D, 0x4E, 0x56, 0x5E, 0xE4, 0xE5, 0xF4, 0xF5]


def batches(tier: str) -> List[Batch]:
    if tier == "quick":
        return [Batch("rs-hist", "rs-core", 20000, 200), Batch("py-hist", "py-core", 480, 6),
                Batch("rs-split", "rs-machine", 3000, 100), Batch("py-split", "py-machine", 240, 6),
                Batch("py-trace", "py-machine", 160, 8), Batch("rs-dev", "rs-machine", 2000, 100),
                Batch("rs-mhist", "rs-machine", 4000, 100), Batch("py-stepper", "py-core", 400, 10)]
    return [Batch("rs-hist", "rs-core", 1500000, 500), Batch("py-hist", "py-core", 150000, 50),
            Batch("rs-split", "rs-machine", 150000, 300), Batch("py-split", "py-machine", 8000, 10),
            Batch("py-trace", "py-machine", 6000, 10), Batch("rs-dev", "rs-machine", 60000, 200),
            Batch("rs-mhist", "rs-machine", 200000, 300), Batch("py-stepper", "py-core", 40000, 50)]


def _gen_stepper(r: Rng) -> Dict[str, Any]:
    """The snapshot-driven stepper (stepper.py): one CPUStepper object answers a sequence of unrelated requests
    (register snapshot, sparse memory image), a fresh one answers each of them next to it.  Images are sparse on purpose:
    cells that an earlier request defined and a later one leaves to the default fill are where a kept object could
    remember something."""
    pool = [0x02000 + i for i in range(6)] + [0xBFE00 + i for i in range(4)]
    steps = []
    for _ in range(r.range(2, 8)):
        pc = r.choice([0x01000, 0x01000, 0x01100, 0x3FF00])
        addr = r.choice(pool[:6])
        s_reg = 0xBFE00
        form = r.weighted([("ld", 5), ("st", 2), ("ret", 2), ("nop", 1), ("ldx", 2), ("pops", 1)])
        if form == "ld":
            code = [0x88, addr & 0xFF, (addr >> 8) & 0xFF, (addr >> 16) & 0xFF]          # MV A,[lmn]
        elif form == "st":
            code = [0xA8, addr & 0xFF, (addr >> 8) & 0xFF, (addr >> 16) & 0xFF]          # MV [lmn],A
        elif form == "ret":
            code = [0x06]
        elif form == "ldx":
            code = [0x90, 0x04]                                                          # MV A,[X]
        elif form == "pops":
            code = [0x37]                                                                # POPS / POPU form reading the stack
        else:
            code = [0x00]
        image = {str(pc + i): b for i, b in enumerate(code)}
        for cell in pool:
            if r.chance(1, 3):
                image[str(cell)] = r.range(1, 255)
        regs = {"pc": pc, "ba": r.below(0x10000), "i": r.below(0x100), "x": r.choice(pool[:6]), "y": r.choice(pool[:6]),
                "u": 0xBFD00, "s": s_reg, "f": r.below(4)}
        steps.append({"regs": regs, "image": image})
    return {"kind": "stepper", "exec": "py-core", "steps": steps, "default": r.choice([0, 0, 0xFF])}


def _exec_stepper(scn: Dict[str, Any]) -> Dict[str, Any]:
    from sc62015.pysc62015.stepper import CPURegistersSnapshot, CPUStepper

    def run(st, step):
        regs = CPURegistersSnapshot(**step["regs"])
        image = {int(a): v for a, v in step["image"].items()}
        try:
            res = st.step(regs, image)
        except Exception as e:
            return {"err": f"{type(e).__name__}: {e}"[:120]}
        rr = res.registers
        return {"regs": [rr.pc, rr.ba, rr.i, rr.x, rr.y, rr.u, rr.s, rr.f],
                "writes": [[w.address, w.value, w.previous, w.size] for w in res.memory_writes],
                "name": res.instruction_name, "length": res.instruction_length,
                "image": sorted((int(a), int(v)) for a, v in dict(res.memory_image).items())}

    kept = CPUStepper(default_memory_value=scn["default"], backend="python")
    out = []
    for step in scn["steps"]:
        fresh = CPUStepper(default_memory_value=scn["default"], backend="python")
        out.append({"kept": run(kept, step), "fresh": run(fresh, step)})
    return {"steps": out}


def _check_stepper(scn: Dict[str, Any], hist: Dict[str, Any]) -> List[Dict[str, Any]]:
    viols: List[Dict[str, Any]] = []
    for k, rec in enumerate(hist["steps"]):
        a, b = rec["fresh"], rec["kept"]
        if a != b:
            field = next((f for f in ("err", "regs", "writes", "name", "length", "image") if a.get(f) != b.get(f)), "?")
            viols.append({"cls": "history_dependence", "executor": "py-core", "where": {"field": field, "level": "stepper"},
                          "msg": f"request {k}: a CPUStepper that answered {k} earlier requests gives {field} = {_s(b.get(field))}, "
                                 f"a fresh one {_s(a.get(field))}", "at": k})
            break
    return viols


def generate(batch: str, r: Rng, idx: int, tier: str) -> Dict[str, Any]:
    if batch == "py-stepper":
        return _gen_stepper(r)
    if batch == "py-trace":
        # the same machine, program and event schedule with tracing off and on: the tracing switch is hidden state
        feat = machine.gen_features(r.child("feat"), {"timers": True, "imr_writes": True, "isr_writes": True, "wait": True,
                                                      "halt": True, "ir": True, "calls": True, "far_calls": False,
                                                      "nested": False, "off": False, "keys": True, "onk": True})
        feat["keys"] = True
        scn = machine.gen_machine_scenario(r, "py-machine", feat, boundaries=r.choice([30, 60, 120]), faulty=True)
        scn["kind"] = "trace"
        return scn
    if batch == "rs-dev":
        return _gen_dev(r)
    if batch == "rs-mhist":
        # history independence of the whole Rust machine: generated firmware with interrupts, timers and key events;
        # replica B has its hidden state scrambled at one boundary (TEMPs, call bookkeeping, performance counter and
        # the timer's diagnostic mirrors of IMR/ISR); every boundary is compared
        feat = machine.gen_features(r.child("feat"), {"timers": True, "imr_writes": True, "isr_writes": True, "wait": True,
                                                      "halt": True, "ir": True, "calls": True, "far_calls": True,
                                                      "nested": True, "off": False, "keys": True, "onk": True, "h_lowpower": True})
        feat["timers"] = True
        n = r.choice([30, 80, 160])
        scn = machine.gen_machine_scenario(r, "rs-machine", feat, boundaries=n, faulty=True)
        rs = r.child("scramble")
        scn["scramble_op"] = [rs.range(0, n - 1), "scramble", [rs.below(1 << 24) for _ in range(14)], rs.below(8),
                              [rs.below(16) << 16 for _ in range(rs.range(0, 3))], rs.below(1 << 30), rs.choice([16, 24]),
                              [rs.choice([0, 0x80, 0xFF, rs.below(256)]), rs.choice([0, 0x0F, rs.below(256)])]]
        scn["kind"] = "dev"
        scn["top_frame"] = scn["scramble_op"][6]
        scn["device"] = None
        scn["stub"] = 0
        return scn
    if batch.endswith("split"):
        ex = "rs-machine" if batch.startswith("rs") else "py-machine"
        feat = machine.gen_features(r.child("feat"), {"timers": True, "imr_writes": True, "isr_writes": True, "wait": True,
                                                      "halt": True, "ir": True, "calls": True, "far_calls": True,
                                                      "nested": True, "off": False, "keys": False, "onk": False, "h_lowpower": True, "selfmod": True})
        feat["timers"] = True
        # programs that read-modify-write the memory-card window: state an earlier machine of the same process left
        # behind anywhere outside itself would show in the next one
        feat["card_rw"] = r.child("card").chance(1, 2)
        n = r.choice([20, 60, 150] if ex == "py-machine" else [20, 60, 150, 300])
        # one Python split run in three goes through the package's SnapshotOrchestrator (inputs, run, state capture per
        # step) with key presses as step inputs: capturing state between two steps must not be an event
        orch = ex == "py-machine" and r.child("orch").chance(1, 3)
        if orch:
            feat["keys"] = True
            feat["kil_reads"] = True
        scn = machine.gen_machine_scenario(r, ex, feat, boundaries=n, faulty=bool(orch))
        if orch:
            scn["orch"] = True
            scn["ops"] = [o for o in scn["ops"] if o[1] == "key"]
        if feat["card_rw"]:
            scn["watch"] = list(scn.get("watch", [])) + [[0x40010, 2], [0x47FF0, 1], [0x4FFFE, 1]]
        scn["kind"] = "split"
        scn["split"] = r.range(1, n - 1)
        return scn
    ex = "rs-core" if batch.startswith("rs") else "py-core"
    # focus program X and sigma
    rx = r.child("focus")
    code: List[int] = []
    starts: List[int] = []
    for _ in range(rx.range(1, 6)):
        addr = core.CODE_LO + len(code)
        ins = core.gen_instruction(rx, addr, opcode=rx.choice(FOCUS_OPS) if rx.chance(2, 3) else None)
        if ins is None:
            continue
        starts.append(len(code))
        code.extend(ins)
    if not starts:
        code, starts = [0x00], [0]
    code += [0x00] * 8
    sigma = core.gen_state(r.child("sigma"))
    # prefix: another program from another state, placed in another page half of the time
    pcode, pstarts = core.gen_program(r.child("prefix"), r.choice([10, 30, 60]))
    pstate = core.gen_state(r.child("pstate"))
    rs = r.child("scramble")
    scramble = {"temps": [rs.below(1 << 24) for _ in range(14)], "call_sub_level": rs.below(12), "call_depth": rs.below(12),
                "pages": [rs.below(16) << 16 for _ in range(rs.below(4))],
                "frames": [[rs.below(1 << 20), rs.choice([16, 24])] for _ in range(rs.below(4))], "perf": rs.below(1 << 30)}
    # stale views of the focus addresses: before sigma is imposed, replica B's machine decodes (a debugger view, a
    # look-ahead) other bytes at the addresses where X will be — the same instruction with its last byte changed
    rst = r.child("stale")
    stale = []
    ends = starts[1:] + [len(code) - 8]
    for st, en in zip(starts, ends):
        if en - st >= 2 and rst.chance(2, 3):
            v = list(code[st:en])
            v[-1] ^= rst.range(1, 255)
            stale.append([st, v])
    return {"kind": "hist", "exec": ex, "code": code, "starts": starts, "state": sigma, "pcode": pcode, "pstate": pstate,
            "scramble": scramble, "psteps": r.choice([10, 40, 100]), "steps": len(starts) + 2, "stale": stale}


# ----------------------------------------------------------------------------------------


SIO_STUBS = [0xEB030, 0xEB31C, 0xEB33D]


def _gen_dev(r: Rng) -> Dict[str, Any]:
    """A Rust machine put together the way a front end does it (DeviceModel::configure_runtime: the ROM's serial
    routines at 0xEB030 / 0xEB31C / 0xEB33D are answered by a stub).  Firmware far-calls a function that — after
    optional near calls of its own — tail-jumps into one of those routines; the routine's return must lead back to
    the far call's successor.  Replica B is the same machine with its call bookkeeping scrambled at one boundary
    (frames left behind by earlier code that unwound its stack by hand); every boundary is compared."""
    from ..progen import SK
    base = progen.CODE_BASE
    code: List[int] = []
    ins: Dict[str, list] = {}

    def emit(bs, tag=""):
        ins[str(base + len(code))] = [len(bs), tag]
        code.extend(bs)

    for _ in range(r.range(1, 4)):
        emit(SK["NOP"][0], "NOP")
    callf_at = len(code)
    emit([0x05, 0, 0, 0], "CALLF:F")
    for _ in range(r.range(3, 8)):
        emit(SK["NOP"][0], "NOP")
    stop = len(code)
    emit([0x12, 0xFE & 0x00], "JR+0")              # placeholder, replaced below by a tight loop
    code[stop:stop + 2] = [0x13, 0x02]             # JR -2: stay here
    f_at = len(code)
    for _ in range(r.range(0, 3)):
        emit(SK["NOP"][0], "NOP")
    helpers = r.range(0, 2)
    call_sites = []
    for _ in range(helpers):
        call_sites.append(len(code))
        emit([0x04, 0, 0], "CALL:H")
        emit(SK["NOP"][0], "NOP")
    stub = r.choice(SIO_STUBS)
    emit([0x03, stub & 0xFF, (stub >> 8) & 0xFF, (stub >> 16) & 0xFF], "JPF:stub")
    h_at = len(code)
    emit(SK["NOP"][0], "SUB:H")
    emit(SK["RET"][0], "RET")
    fa = base + f_at
    code[callf_at + 1:callf_at + 4] = [fa & 0xFF, (fa >> 8) & 0xFF, (fa >> 16) & 0xFF]
    ha = base + h_at
    for cs in call_sites:
        code[cs + 1:cs + 3] = [ha & 0xFF, (ha >> 8) & 0xFF]
    n = 12 + 4 * helpers + 8
    prog = {"image": [[base, code]], "rom_tail": [0, 0, 0, base & 0xFF, (base >> 8) & 0xFF, (base >> 16) & 0xFF],
            "entry": base, "main": base, "handler": base, "code": [base, 0xFFFFF], "ins": ins, "style": "dev"}
    rs = r.child("scramble")
    width = rs.choice([16, 24])
    at = rs.range(0, n - 1)
    # stale frames: a few, or — one run in four — more than a long-running program leaves behind before any bound on the
    # bookkeeping would be reached (frames of code that unwound its stack by hand are never popped)
    n_stale = rs.range(1, 3) if not r.child("many-frames").chance(1, 4) else r.child("many-frames").range(50, 140)
    scr = [at, "scramble", [rs.below(1 << 24) for _ in range(14)], rs.below(8),
           [rs.below(16) << 16 for _ in range(n_stale)], rs.below(1 << 30), width]
    return {"kind": "dev", "exec": "rs-machine", "callf_at": base + callf_at, "device": r.choice(["pce500", "pce500", "jp"]), "prog": prog,
            "regs": {"PC": base, "S": progen.S_INIT, "U": progen.U_INIT, "BA": 0x1234, "I": 0, "X": 0, "Y": 0, "F": 0},
            "imem": [[progen.IMR, 0], [progen.ISR, 0]], "timer": {"enabled": False, "mti": 0, "sti": 0},
            "kb": {"press": 1, "release": 1, "repeat_delay": 24, "repeat_interval": 6, "active_high": True},
            "h_range": [ha, ha + 1], "boundaries": n, "ops": [], "scramble_op": scr, "watch": [[progen.S_INIT - 16, 16]], "feat": {}, "faulty": False,
            "stub": stub, "top_frame": width}


def _exec_dev(scn: Dict[str, Any]) -> Dict[str, Any]:
    a = machine.run_machine(scn)
    b_scn = dict(scn)
    b_scn["ops"] = sorted(list(scn.get("ops") or []) + [scn["scramble_op"]], key=lambda o: (o[0], 0 if o[1] == "scramble" else 1))
    b = machine.run_machine(b_scn)
    return {"a": {"obs": [o[:machine.O_SHADOW] for o in a["obs"]], "err": a["err"]},
            "b": {"obs": [o[:machine.O_SHADOW] for o in b["obs"]], "err": b["err"]}}


def _check_dev(scn: Dict[str, Any], hist: Dict[str, Any]) -> List[Dict[str, Any]]:
    from .c16 import FIELDS
    viols: List[Dict[str, Any]] = []
    a, b = hist["a"]["obs"], hist["b"]["obs"]
    probes = hist.setdefault("_probes", {})
    if any(o[machine.O_PC] in SIO_STUBS for o in a):
        probes["rom_stub_reached"] = 1
    for k in range(min(len(a), len(b))):
        for name, idx in FIELDS:
            if a[k][idx] != b[k][idx]:
                at_stub = k > 0 and a[k - 1][machine.O_PC] in SIO_STUBS
                ks = scn["scramble_op"][0]
                live_near = "h_range" in scn and ks < len(a) and scn["h_range"][0] <= a[ks][machine.O_PC] <= scn["h_range"][1]
                # the stub reads the width of the innermost frame of the bookkeeping: with stale frames of the far call's
                # own width and no near call live when they appeared, fresh and scrambled bookkeeping say the same
                agrees = scn["top_frame"] == 24 and not live_near
                if "callf_at" in scn:
                    # stale frames that were there before the far call executed lie *below* its frame: the innermost
                    # frame is the real one on both machines, whatever the stale ones look like
                    k_call = next((i for i, o in enumerate(a) if o[machine.O_PC] == scn["callf_at"]), None)
                    if k_call is not None and ks <= k_call:
                        agrees = True
                viols.append({"cls": "history_dependence", "executor": "rs-machine",
                              "where": {"field": name, "level": "device_machine", "at": "rom_stub_entry" if at_stub else "elsewhere",
                                        "stale_frame_width": scn["top_frame"], "bookkeeping_agrees": agrees},
                              "msg": f"boundary {k} (pc before {a[k - 1][machine.O_PC] if k else 0:#x}): {name} = {_s(a[k][idx])} on the fresh "
                                     f"machine, {_s(b[k][idx])} on the one whose call bookkeeping was scrambled at boundary "
                                     f"{scn['scramble_op'][0]} (stale frames of width {scn['top_frame']})", "at": k})
                return viols
    if len(a) != len(b) or hist["a"]["err"] != hist["b"]["err"]:
        viols.append({"cls": "history_dependence", "executor": "rs-machine", "where": {"field": "run_end", "level": "device_machine"},
                      "msg": f"runs end differently: {hist['a']['err']} vs {hist['b']['err']}", "at": min(len(a), len(b))})
    return viols


def _full_image(scn: Dict[str, Any]):
    return core.image_of({"code": scn["code"], "state": scn["state"]})


def _exec_hist_py(scn: Dict[str, Any]) -> Dict[str, Any]:
    from sc62015.pysc62015.emulator import RegisterName as R
    # A: fresh
    emu, bus = core.new_py_core(scn)
    a = core.py_run(emu, bus, scn["steps"], block_limit=0x400)
    # A2: a second fresh emulator (repeatability inside one process)
    emu2, bus2 = core.new_py_core(scn)
    a2 = core.py_run(emu2, bus2, scn["steps"], block_limit=0x400)
    # B: prefix on the same emulator object, scramble, impose sigma, run X
    pscn = {"code": scn["pcode"], "state": scn["pstate"]}
    emu, bus = core.new_py_core(pscn)
    pre = core.py_run(emu, bus, scn["psteps"], block_limit=0x400)
    touched = set()
    for rec in pre:
        for ad, _ in rec[13]:
            touched.add(ad)
    for i, v in enumerate(scn["scramble"]["temps"]):
        emu.regs.set(getattr(R, f"TEMP{i}"), v)
    emu.regs.call_sub_level = scn["scramble"]["call_sub_level"]
    emu._last_pc = scn["scramble"]["perf"] & 0xFFFFF
    for off, variant in scn.get("stale", []):
        bus.load(core.CODE_LO + off, variant)
        try:
            emu.decode_instruction(core.CODE_LO + off)
        except Exception:
            pass
    # impose the architectural state only: registers, flags, power state, memory
    for ad in touched:
        bus.load(ad, [0])
    for addr, data in core.image_of(pscn):
        bus.load(addr, [0] * len(data))
    for addr, data in _full_image(scn):
        bus.load(addr, data)
    for name, v in scn["state"]["regs"].items():
        emu.regs.set(R[name], v)
    emu.state.halted = False
    b = core.py_run(emu, bus, scn["steps"], block_limit=0x400)
    return {"a": a, "a2": a2, "b": b, "prefix_steps": len(pre), "prefix_ops": [rec[1] for rec in pre]}


def _exec_hist_rs(scn: Dict[str, Any]) -> Dict[str, Any]:
    pscn = {"code": scn["pcode"], "state": scn["pstate"]}
    ops = core.rs_setup(scn, 0) + [["c.run", 0, scn["steps"], core.CODE_LO, core.CODE_HI]]
    ops += core.rs_setup(scn, 1) + [["c.run", 1, scn["steps"], core.CODE_LO, core.CODE_HI]]
    ops += core.rs_setup(pscn, 2) + [["c.run", 2, scn["psteps"], core.CODE_LO, core.CODE_HI]]
    out = host().call(ops)
    a, a2, pre = out[0], out[1], out[2]
    touched = set()
    for rec in pre:
        for ad, _ in rec[13]:
            touched.add(ad)
    zero = [[ad, [0]] for ad in sorted(touched)] + [[addr, [0] * len(data)] for addr, data in core.image_of(pscn)]
    mem = zero + [[addr, data] for addr, data in _full_image(scn)]
    regs = dict(scn["state"]["regs"])
    ops2 = [["c.hidden", 2, scn["scramble"]], ["c.impose", 2, {"regs": regs, "mem": mem, "power": 0}],
            ["c.run", 2, scn["steps"], core.CODE_LO, core.CODE_HI]]
    b = host().call_keep(ops2)[-1]
    return {"a": a, "a2": a2, "b": b, "prefix_steps": len(pre), "prefix_ops": [rec[1] for rec in pre]}


def _exec_split(scn: Dict[str, Any]) -> Dict[str, Any]:
    n, k = scn["boundaries"], scn["split"]
    watch = scn.get("watch", [])
    if scn["exec"] == "rs-machine":
        ops = machine.rs_setup_ops(scn, 0) + machine.rs_setup_ops(scn, 1) + machine.rs_setup_ops(scn, 2)
        ops += [["m.stepn", 0, n], ["m.obs", 0, watch], ["m.stepn", 1, k], ["m.stepn", 1, n - k], ["m.obs", 1, watch],
                ["m.stepn", 2, n], ["m.obs", 2, watch]]
        out = host().call(ops)
        return {"whole": out[1], "split": out[4], "again": out[6], "ok": [out[0], out[2], out[3], out[5]]}
    res = {}
    oks = []
    if scn.get("orch"):
        from pce500.orchestrator import OrchestratorInputs, SnapshotOrchestrator
        for label, extra in (("whole", []), ("split", [k]), ("again", [])):
            emu = machine.build_py_machine(scn)
            orch = SnapshotOrchestrator(emulator=emu)
            cuts = sorted(set([0, n] + [o[0] for o in scn["ops"] if 0 <= o[0] < n] + extra))
            for a, b in zip(cuts, cuts[1:]):
                press = [machine.key_name(o[3]) for o in scn["ops"] if o[0] == a and o[2]]
                release = [machine.key_name(o[3]) for o in scn["ops"] if o[0] == a and not o[2]]
                try:
                    snap = orch.step(OrchestratorInputs(max_instructions=b - a, press_keys=press, release_keys=release))
                    oks.append(snap.executed_instructions)
                    if extra and b in extra:
                        orch.capture_snapshot()        # a look at the machine between two steps
                except Exception as e:
                    oks.append(f"{type(e).__name__}: {e}")
            res[label] = machine.py_obs(emu, watch)
        res["ok"] = [x for x in oks if isinstance(x, str)]
        return res
    for label, parts in (("whole", [n]), ("split", [k, n - k]), ("again", [n])):
        emu = machine.build_py_machine(scn)
        for p in parts:
            try:
                oks.append(emu.run(p))
            except Exception as e:
                oks.append(f"{type(e).__name__}: {e}")
        res[label] = machine.py_obs(emu, watch)
    res["ok"] = oks
    return res


def _exec_trace(scn: Dict[str, Any]) -> Dict[str, Any]:
    off = machine.run_machine(scn)
    on_scn = dict(scn)
    on_scn["trace"] = True
    try:
        on = machine.run_machine(on_scn)
    finally:
        try:
            from pce500.tracing.perfetto_tracing import tracer
            tracer.safe_stop()
        except Exception:
            pass
        import glob
        import os
        for f in glob.glob(os.path.join(machine.scratch_dir(), "trace-*")):
            try:
                os.remove(f)
            except OSError:
                pass
    return {"off": {"obs": [o[:machine.O_SHADOW] for o in off["obs"]], "err": off["err"]},
            "on": {"obs": [o[:machine.O_SHADOW] for o in on["obs"]], "err": on["err"]}}


def execute(scn: Dict[str, Any]) -> Dict[str, Any]:
    if scn["kind"] == "stepper":
        return _exec_stepper(scn)
    if scn["kind"] == "trace":
        return _exec_trace(scn)
    if scn["kind"] == "split":
        return _exec_split(scn)
    if scn["kind"] == "dev":
        return _exec_dev(scn)
    return _exec_hist_py(scn) if scn["exec"] == "py-core" else _exec_hist_rs(scn)


def _first_diff(a: List[list], b: List[list]):
    names = ["pc", "opcode", "length", "BA", "I", "X", "Y", "U", "S", "PC", "FC", "FZ", "power", "memory", "error"]
    for k in range(min(len(a), len(b))):
        for idx in range(15):
            if a[k][idx] != b[k][idx]:
                return k, names[idx], a[k], b[k]
    if len(a) != len(b):
        return min(len(a), len(b)), "run_length", None, None
    return None


def check(scn: Dict[str, Any], hist: Dict[str, Any]) -> List[Dict[str, Any]]:
    if scn["kind"] == "stepper":
        return _check_stepper(scn, hist)
    if scn["kind"] == "dev":
        return _check_dev(scn, hist)
    ex = scn["exec"]
    viols: List[dict] = []
    if scn["kind"] == "trace":
        names = ["PC", "BA", "I", "X", "Y", "U", "S", "F", "power", "IMR", "ISR", "cycles", "instructions", "irq_total",
                 "irq_depth", "in_interrupt", "irq_pending", "next_mti", "next_sti", "key_latched", "fifo_len", "kil", "stack",
                 "memory"]
        a, b = hist["off"]["obs"], hist["on"]["obs"]
        for k in range(min(len(a), len(b))):
            # irq_total / irq_depth are the tracer's own bookkeeping (the interrupt-context stack is only kept while
            # tracing): diagnostics, not machine state
            bad = next((i for i in range(min(len(names), len(a[k]), len(b[k])))
                        if names[i] not in ("irq_total", "irq_depth") and a[k][i] != b[k][i]), None)
            if bad is not None:
                viols.append({"cls": "history_dependence", "executor": ex, "where": {"field": names[bad], "hidden": "tracing_switch"},
                              "msg": f"boundary {k}: {names[bad]} = {_s(a[k][bad])} with tracing off, {_s(b[k][bad])} with "
                                     f"tracing on", "at": k})
                break
        else:
            if len(a) != len(b) or hist["off"]["err"] != hist["on"]["err"]:
                viols.append({"cls": "history_dependence", "executor": ex, "where": {"field": "run_length", "hidden": "tracing_switch"},
                              "msg": f"runs end differently with tracing off/on: {hist['off']['err']} vs {hist['on']['err']}", "at": 0})
        return viols
    if scn["kind"] == "split":
        names = ["PC", "BA", "I", "X", "Y", "U", "S", "F", "power", "IMR", "ISR", "cycles", "instructions", "irq_total",
                 "irq_depth", "in_interrupt", "irq_pending", "next_mti", "next_sti", "key_latched", "fifo_len", "kil", "stack",
                 "memory"]
        for label, cls in (("split", "split_run"), ("again", "trace_nondeterminism")):
            w, o = hist["whole"], hist[label]
            for i, nm in enumerate(names):
                if w[i] != o[i]:
                    viols.append({"cls": cls, "executor": ex, "where": {"field": nm},
                                  "msg": f"{scn['boundaries']} boundaries in one call vs {label} "
                                         f"({scn['split']}+{scn['boundaries'] - scn['split']}): {nm} {w[i]} vs {o[i]}", "at": scn["split"]})
                    break
        return viols
    d = _first_diff(hist["a"], hist["a2"])
    if d:
        viols.append({"cls": "trace_nondeterminism", "executor": ex, "where": {"field": d[1]},
                      "msg": f"two fresh emulators differ at step {d[0]}: {d[1]}", "at": d[0]})
    d = _first_diff(hist["a"], hist["b"])
    if d:
        k, field, ra, rb = d
        opcode = ra[1] if ra else (hist["a"][k][1] if k < len(hist["a"]) else 0)
        viols.append({"cls": "history_dependence", "executor": ex,
                      "where": {"field": "mem" if field == "memory" else "reg" if field not in ("run_length", "error", "length") else field,
                                "opcode": f"{opcode:02X}"},
                      "msg": f"focus step {k} (opcode {opcode:02X}): {field} fresh={_s(ra[_idx(field)] if ra else None)} "
                             f"after-history={_s(rb[_idx(field)] if rb else None)} (prefix ran {hist['prefix_steps']} instructions)",
                      "at": k})
    return viols


def _idx(field):
    names = ["pc", "opcode", "length", "BA", "I", "X", "Y", "U", "S", "PC", "FC", "FZ", "power", "memory", "error"]
    return names.index(field) if field in names else 0


def _s(v):
    t = str(v)
    return t if len(t) < 100 else t[:97] + "..."


def stats(scn: Dict[str, Any], hist: Dict[str, Any]) -> Dict[str, Any]:
    probes: Dict[str, int] = {}
    if scn["kind"] == "stepper":
        ok = sum(1 for rec in hist["steps"] if "err" not in rec["fresh"])
        return {"nontrivial": ok >= 2, "sig": digest(scn["steps"]), "faults": {"object_reused": len(hist["steps"]) - 1},
                "probes": {"stepper_reused": 1}, "cycles": ok, "boundaries": 2 * len(hist["steps"])}
    if scn["kind"] == "dev":
        probes = dict(hist.get("_probes") or {})
        probes["scramble"] = 1
        obs = hist["a"]["obs"]
        if scn.get("device") is None:
            probes["machine_history"] = 1
        return {"nontrivial": bool(probes.get("rom_stub_reached")) or (scn.get("device") is None and bool(obs) and obs[-1][machine.O_IRQ] > 0),
                "sig": digest([scn["prog"]["image"], scn["scramble_op"], scn["device"]]),
                "faults": {"hidden_scramble": 1}, "probes": probes, "cycles": obs[-1][machine.O_CYC] if obs else 0,
                "boundaries": 2 * len(obs)}
    if scn["kind"] == "trace":
        obs = hist["off"]["obs"]
        probes["tracing_on_off"] = 1
        return {"nontrivial": len(obs) > 5, "sig": digest([scn["prog"]["image"], scn["timer"], scn["ops"]]),
                "faults": {"tracing_switched_on": 1}, "probes": probes, "cycles": obs[-1][machine.O_CYC] if obs else 0,
                "boundaries": 2 * len(obs)}
    if scn["kind"] == "split":
        w = hist["whole"]
        probes["repeat_identical"] = 1
        if w[machine.O_ININT]:
            probes["split_in_handler"] = 1
        return {"nontrivial": True, "sig": digest([scn["prog"]["image"], scn["timer"], scn["split"]]),
                "faults": {"budget_split": 1}, "probes": probes, "cycles": w[machine.O_CYC], "boundaries": 3 * scn["boundaries"]}
    ops = hist.get("prefix_ops", [])
    if any(o in (0xCB, 0xCF, 0xD3, 0xDB, 0xE3, 0xEB, 0xF3, 0xFB, 0x54, 0x55, 0x5C, 0x5D) for o in ops):
        probes["prefix_block"] = 1
    if any(o in (0x04, 0x05) for o in ops):
        probes["prefix_call"] = 1
    probes["scramble"] = 1
    fo = [r[1] for r in hist["a"]]
    if any(o in (0x06, 0x07, 0x01) for o in fo):
        probes["focus_ret"] = 1
    if any(o in (0xCB, 0xCF, 0xD3, 0xDB, 0xE3, 0xEB, 0xF3, 0xFB, 0x54, 0x55, 0x5C, 0x5D, 0xC4, 0xC5, 0xD4, 0xD5) for o in fo):
        probes["focus_block"] = 1
    return {"nontrivial": hist["prefix_steps"] >= 3 and len(hist["a"]) >= 1,
            "sig": digest([scn["pcode"], scn["code"], scn["state"]["regs"], scn["scramble"]["temps"][:3]]),
            "faults": {"hidden_scramble": 1}, "probes": probes, "cycles": hist["prefix_steps"] + 3 * len(hist["a"]),
            "boundaries": hist["prefix_steps"] + 3 * len(hist["a"])}


def sample(scn: Dict[str, Any], hist: Dict[str, Any]) -> Dict[str, Any]:
    if scn["kind"] == "stepper":
        return {"executor": "py-core (CPUStepper)", "requests": len(scn["steps"]),
                "first": {k: v for k, v in hist["steps"][0]["fresh"].items() if k != "image"}}
    if scn["kind"] == "dev":
        return {"executor": scn["exec"], "device": scn["device"], "stub": hex(scn["stub"]), "scramble_at": scn["scramble_op"][0],
                "stale_frame_width": scn["top_frame"], "fresh": [o[:8] for o in hist["a"]["obs"][:6]]}
    if scn["kind"] == "trace":
        return {"executor": scn["exec"], "boundaries": scn["boundaries"], "ops": scn["ops"][:8],
                "tracing_off": [o[:12] for o in hist["off"]["obs"][:4]], "tracing_on": [o[:12] for o in hist["on"]["obs"][:4]]}
    if scn["kind"] == "split":
        return {"executor": scn["exec"], "boundaries": scn["boundaries"], "split": scn["split"], "whole": hist["whole"][:14],
                "split_obs": hist["split"][:14]}
    return {"executor": scn["exec"], "focus_hex": " ".join(f"{b:02X}" for b in scn["code"][:24]),
            "prefix_hex": " ".join(f"{b:02X}" for b in scn["pcode"][:32]), "prefix_steps": hist["prefix_steps"],
            "fresh": [r[:13] for r in hist["a"][:3]], "after_history": [r[:13] for r in hist["b"][:3]]}


def shrink(scn: Dict[str, Any]):
    if scn["kind"] == "stepper":
        for i in range(len(scn["steps"])):
            if len(scn["steps"]) > 1:
                c = copy.deepcopy(scn)
                del c["steps"][i]
                yield c
        return
    if scn["kind"] == "dev":
        op = scn["scramble_op"]
        for cand in ([0] * 14, op[2]):
            for pages in (op[4][:1], op[4]):
                if cand != op[2] or pages != op[4]:
                    c = copy.deepcopy(scn)
                    c["scramble_op"] = [op[0], "scramble", cand, 0, pages, 0, op[6]]
                    yield c
        return
    if scn["kind"] == "trace":
        from . import c12
        yield from c12.shrink(scn)
        return
    if scn["kind"] == "split":
        n = scn["boundaries"]
        for nb in (n // 2, n - 1):
            if 2 <= nb < n:
                c = copy.deepcopy(scn)
                c["boundaries"] = nb
                c["split"] = min(c["split"], nb - 1)
                yield c
        return
    for ps in (0, scn["psteps"] // 2):
        if ps < scn["psteps"]:
            c = copy.deepcopy(scn)
            c["psteps"] = ps
            yield c
    for key in ("temps", "pages", "frames"):
        if any(scn["scramble"][key]):
            c = copy.deepcopy(scn)
            c["scramble"][key] = [0] * 14 if key == "temps" else []
            yield c
    for key in ("call_sub_level", "call_depth", "perf"):
        if scn["scramble"][key]:
            c = copy.deepcopy(scn)
            c["scramble"][key] = 0
            yield c
    starts = scn["starts"]
    if len(starts) > 1:
        c = copy.deepcopy(scn)
        cut = starts[-1]
        c["code"] = c["code"][:cut] + [0] * 8
        c["starts"] = starts[:-1]
        c["steps"] = len(c["starts"]) + 2
        yield c
