"""Deterministic simulation with fault injection for mblsha/binja-esr (see /verif/DESIGN.md)."""
