"""Offline build of the Rust simulation host against the repository working tree.

The repository's own Cargo.toml cannot be resolved offline (git dependency, lock
file pinned to versions that are not in the local registry), so a *shadow* manifest
is generated that points `[lib] path` at <repo>/sc62015/core/src/lib.rs and patches
every crates.io dependency to the vendored sources under /verif/vendor/crates.
`zip` is replaced by /verif/rust/zipshim, `retrobus-perfetto` is compiled out
(feature `perfetto` off).  Every check calls ensure_simhost(); cargo's own
fingerprinting makes this a sub-second no-op when nothing changed and a rebuild
when anything under <repo>/sc62015/core/src was edited.
"""
from __future__ import annotations

import hashlib
import os
import subprocess
import sys
import fcntl
from pathlib import Path

VERIF = Path(__file__).resolve().parent.parent
VENDOR = VERIF / "vendor" / "crates"
BUILD_ROOT = VERIF / ".build"

PATCHED = [
    "serde-1.0.228", "serde_core-1.0.228", "serde_derive-1.0.228", "serde_json-1.0.149",
    "thiserror-1.0.69", "thiserror-impl-1.0.69", "proc-macro2-1.0.106", "quote-1.0.45",
    "syn-2.0.117", "unicode-ident-1.0.24", "itoa-1.0.17", "memchr-2.7.6", "zmij-1.0.18",
    "miniz_oxide-0.8.9", "adler2-2.0.1", "crc32fast-1.5.0", "cfg-if-1.0.4",
]


def repo_root() -> Path:
    return Path(os.environ.get("VERIF_REPO", "/repo")).resolve()


def _patch_block() -> str:
    lines = ["[patch.crates-io]"]
    for crate in PATCHED:
        name = crate.rsplit("-", 1)[0]
        lines.append(f'{name} = {{ path = "{VENDOR / crate}" }}')
    lines.append(f'zip = {{ path = "{VERIF / "rust" / "zipshim"}" }}')
    return "\n".join(lines) + "\n"


def workspace_dir(repo: Path) -> Path:
    key = hashlib.sha1(str(repo).encode()).hexdigest()[:10]
    return BUILD_ROOT / f"ws-{key}"


def _write_if_changed(path: Path, text: str) -> None:
    if path.exists() and path.read_text() == text:
        return
    path.parent.mkdir(parents=True, exist_ok=True)
    path.write_text(text)


def ensure_simhost(quiet: bool = True) -> Path:
    """Build (or refresh) simhost for the current VERIF_REPO; return the binary path."""
    repo = repo_root()
    ws = workspace_dir(repo)
    ws.mkdir(parents=True, exist_ok=True)
    core_src = repo / "sc62015" / "core" / "src" / "lib.rs"
    if not core_src.exists():
        raise RuntimeError(f"core sources not found at {core_src}")
    shadow = f"""[package]
name = "sc62015-core"
version = "0.1.0"
edition = "2021"

[lib]
path = "{core_src}"

[dependencies]
serde = {{ version = "1.0", features = ["derive"] }}
serde_json = "1.0"
thiserror = "1.0"
zip = {{ version = "0.6", default-features = false, features = ["deflate"], optional = true }}

[features]
default = ["snapshot"]
llama-tests = []
cli = []
perfetto = []
snapshot = ["dep:zip"]
"""
    host = f"""[package]
name = "simhost"
version = "0.1.0"
edition = "2021"

[[bin]]
name = "simhost"
path = "{VERIF / 'rust' / 'simhost' / 'src' / 'main.rs'}"

[dependencies]
sc62015-core = {{ path = "../coreshadow" }}
serde_json = "1.0"
crc32fast = "1"

[profile.release]
opt-level = 2
debug = false
panic = "unwind"

{_patch_block()}"""
    _write_if_changed(ws / "coreshadow" / "Cargo.toml", shadow)
    _write_if_changed(ws / "simhost" / "Cargo.toml", host)
    env = dict(os.environ)
    env["CARGO_TARGET_DIR"] = str(ws / "target")
    env["CARGO_NET_OFFLINE"] = "true"
    env.setdefault("CARGO_TERM_COLOR", "never")
    env["RUSTFLAGS"] = env.get("RUSTFLAGS", "") + " -Awarnings"
    lock_path = ws / ".lock"
    with open(lock_path, "w") as lock:
        fcntl.flock(lock, fcntl.LOCK_EX)
        proc = subprocess.run(
            ["cargo", "build", "--offline", "--release", "--manifest-path", str(ws / "simhost" / "Cargo.toml")],
            env=env, capture_output=True, text=True,
        )
    if proc.returncode != 0:
        sys.stderr.write(proc.stdout[-4000:] + proc.stderr[-8000:])
        raise RuntimeError("cargo build of simhost failed (harness error, not a violation)")
    if not quiet:
        sys.stderr.write(proc.stderr[-2000:])
    binary = ws / "target" / "release" / "simhost"
    if not binary.exists():
        raise RuntimeError("simhost binary missing after build")
    return binary


if __name__ == "__main__":
    print(ensure_simhost(quiet=False))
