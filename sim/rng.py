"""SplitMix64 streams: one integer (VERIF_SEED) decides everything.

Every purpose draws from its own child stream ``Rng(mix(seed, label))`` so that adding a
draw in one generator never shifts another.  Only integer draws; nothing here reads a clock.
"""
from __future__ import annotations

import hashlib

MASK = (1 << 64) - 1


def _sm64(x: int) -> int:
    x = (x + 0x9E3779B97F4A7C15) & MASK
    z = x
    z = ((z ^ (z >> 30)) * 0xBF58476D1CE4E5B9) & MASK
    z = ((z ^ (z >> 27)) * 0x94D049BB133111EB) & MASK
    return z ^ (z >> 31)


def mix(seed: int, *labels) -> int:
    """Derive a child seed from a parent seed and labels (ints or strings), stable across
    processes and PYTHONHASHSEED (never uses hash())."""
    h = hashlib.blake2b(digest_size=8)
    h.update(int(seed & MASK).to_bytes(8, "little"))
    for lab in labels:
        if isinstance(lab, int):
            h.update(b"i" + int(lab & MASK).to_bytes(8, "little"))
        else:
            h.update(b"s" + str(lab).encode())
    return int.from_bytes(h.digest(), "little")


class Rng:
    __slots__ = ("state",)

    def __init__(self, seed: int):
        self.state = seed & MASK

    def child(self, *labels) -> "Rng":
        return Rng(mix(self.state, *labels))

    def u64(self) -> int:
        self.state = (self.state + 0x9E3779B97F4A7C15) & MASK
        z = self.state
        z = ((z ^ (z >> 30)) * 0xBF58476D1CE4E5B9) & MASK
        z = ((z ^ (z >> 27)) * 0x94D049BB133111EB) & MASK
        return z ^ (z >> 31)

    def below(self, n: int) -> int:
        """Uniform integer in [0, n)."""
        if n <= 1:
            return 0
        return self.u64() % n

    def range(self, lo: int, hi: int) -> int:
        """Uniform integer in [lo, hi] inclusive."""
        return lo + self.below(hi - lo + 1)

    def chance(self, num: int, den: int) -> bool:
        return self.below(den) < num

    def choice(self, seq):
        return seq[self.below(len(seq))]

    def weighted(self, pairs):
        """pairs: [(item, weight)] with integer weights."""
        total = sum(w for _, w in pairs)
        r = self.below(total)
        for item, w in pairs:
            if r < w:
                return item
            r -= w
        return pairs[-1][0]

    def shuffle(self, seq):
        seq = list(seq)
        for i in range(len(seq) - 1, 0, -1):
            j = self.below(i + 1)
            seq[i], seq[j] = seq[j], seq[i]
        return seq

    def sample(self, seq, k):
        return self.shuffle(seq)[:k]

    def bytes(self, n: int) -> list:
        return [self.below(256) for _ in range(n)]
