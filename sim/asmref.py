"""Reference assembler process: a separate interpreter that assembles each program it is sent
with a fresh Assembler object, each in a forked child of the pristine server, so process-wide
residue left by *histories* (failed assemblies, reused Assembler objects, shared operand
templates, caches keyed by source text) is absent here by construction."""
from __future__ import annotations

import json
import os
import select
import signal
import subprocess
import sys
from typing import Any, Dict, Optional

from .rshost import HarnessError

_SERVER = r'''
import sys, json, os
os.environ["FORCE_BINJA_MOCK"] = "1"
sys.path.insert(0, os.environ.get("VERIF_REPO", "/repo"))
from sc62015.pysc62015.sc_asm import Assembler, AssemblerError
for line in sys.stdin:
    line = line.strip()
    if not line:
        continue
    req = json.loads(line)
    # every request is answered by a forked child of this (pristine) process: what one assembly leaves behind in
    # process-wide state never meets the next request
    pid = os.fork()
    if pid != 0:
        os.waitpid(pid, 0)
        continue
    try:
        asm = Assembler()
        if req.get("bases"):
            asm.SECTION_BASE_ADDRESSES = dict(req["bases"])
        bf = asm.assemble(req["src"])
        segs = [[int(s.address), list(bytes(s.data))] for s in bf.segments]
        out = {"ok": True, "segs": segs}
    except AssemblerError as e:
        out = {"ok": False, "err": "AssemblerError", "msg": str(e)[:200]}
    except Exception as e:
        out = {"ok": False, "err": type(e).__name__, "msg": str(e)[:200]}
    sys.stdout.write(json.dumps(out) + "\n")
    sys.stdout.flush()
    os._exit(0)
'''


class AsmRef:
    def __init__(self):
        self.proc: Optional[subprocess.Popen] = None
        self._buf = b""

    def _start(self):
        env = dict(os.environ)
        env["PYTHONHASHSEED"] = "99"
        self.proc = subprocess.Popen([sys.executable, "-c", _SERVER], stdin=subprocess.PIPE, stdout=subprocess.PIPE,
                                     stderr=subprocess.DEVNULL, env=env, bufsize=0)
        self._buf = b""

    def assemble(self, src: str, bases: Optional[Dict[str, int]] = None) -> Dict[str, Any]:
        if self.proc is None or self.proc.poll() is not None:
            self._start()
        self.proc.stdin.write(json.dumps({"src": src, "bases": bases}).encode() + b"\n")
        self.proc.stdin.flush()
        fd = self.proc.stdout.fileno()
        while b"\n" not in self._buf:
            r, _, _ = select.select([fd], [], [], 120)
            if not r:
                try:
                    os.kill(self.proc.pid, signal.SIGKILL)
                except Exception:
                    pass
                self.proc = None
                raise HarnessError("assembler reference process did not answer")
            chunk = os.read(fd, 1 << 20)
            if not chunk:
                self.proc = None
                raise HarnessError("assembler reference process exited")
            self._buf += chunk
        line, _, self._buf = self._buf.partition(b"\n")
        return json.loads(line)


_REF: Optional[AsmRef] = None
_PID = -1


def ref() -> AsmRef:
    global _REF, _PID
    if _REF is None or _PID != os.getpid():
        _REF = AsmRef()
        _PID = os.getpid()
    return _REF
