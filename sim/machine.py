"""Machine-level scenarios and executors (Python PCE500Emulator, Rust CoreRuntime).

A scenario is fully materialised data.  Executors advance one instruction boundary at a
time, apply ops only between boundaries, and return per-boundary observations in one
vocabulary (OBS_* indices).  Adapters turn them into step records for the oracles.
"""
from __future__ import annotations

import os
import tempfile
from typing import Any, Dict, List, Optional

from . import progen
from .rng import Rng
from .rshost import HarnessError, host

# observation vector layout (shared by both executors)
(O_PC, O_BA, O_I, O_X, O_Y, O_U, O_S, O_F, O_PWR, O_IMR, O_ISR, O_CYC, O_INS, O_IRQ, O_DEPTH,
 O_ININT, O_PEND, O_NMTI, O_NSTI, O_LATCH, O_FIFO, O_KIL, O_STACK, O_WATCH, O_SHADOW) = range(25)

ROM_SIZE = 0x40000

# matrix code -> key name (row-major table shared by both keyboard models)
_KEY_ROWS = [
    ["KEY_TRIANGLE_UP_DOWN", "KEY_W", "KEY_R", "KEY_Y", "KEY_I", "KEY_RCL", "KEY_STO", "KEY_C_CE", "KEY_UP_DOWN", "KEY_RPAREN", "KEY_P"],
    ["KEY_Q", "KEY_E", "KEY_T", "KEY_U", "KEY_O", "KEY_HYP", "KEY_SIN", "KEY_COS", "KEY_TAN", "KEY_FSE", "KEY_2NDF"],
    ["KEY_MENU", "KEY_S", "KEY_F", "KEY_H", "KEY_K", "KEY_TO_HEX", "KEY_TO_DEG", "KEY_LN", "KEY_LOG", "KEY_1_X", "KEY_F5"],
    ["KEY_A", "KEY_D", "KEY_G", "KEY_J", "KEY_L", "KEY_EXP", "KEY_Y_X", "KEY_SQRT", "KEY_X2", "KEY_LPAREN", "KEY_F4"],
    ["KEY_BASIC", "KEY_X", "KEY_V", "KEY_N", "KEY_COMMA", "KEY_7", "KEY_8", "KEY_9", "KEY_DIVIDE", "KEY_DELETE", "KEY_F3"],
    ["KEY_Z", "KEY_C", "KEY_B", "KEY_M", "KEY_SEMICOLON", "KEY_4", "KEY_5", "KEY_6", "KEY_MULTIPLY", "KEY_BACKSPACE", "KEY_F2"],
    ["KEY_SHIFT", "KEY_CAPS", "KEY_SPACE", "KEY_UP", "KEY_RIGHT", "KEY_1", "KEY_2", "KEY_3", "KEY_MINUS", "KEY_INSERT", "KEY_F1"],
    ["KEY_CTRL", "KEY_ANS", "KEY_DOWN", "KEY_LEFT", "KEY_ENTER", "KEY_0", "KEY_PLUSMINUS", "KEY_PERIOD", "KEY_PLUS", "KEY_EQUALS", None],
]


def key_name(code: int) -> Optional[str]:
    col, row = code >> 3, code & 7
    if col >= 11:
        return None
    return _KEY_ROWS[row][col]


def all_key_codes() -> List[int]:
    return [((c << 3) | r) for r in range(8) for c in range(11) if _KEY_ROWS[r][c]]


_KEYMAP_OK = False


def verify_keymap() -> None:
    global _KEYMAP_OK
    if _KEYMAP_OK:
        return
    from pce500.keyboard_matrix import KEY_LOCATIONS
    for code in all_key_codes():
        nm = key_name(code)
        loc = KEY_LOCATIONS.get(nm)
        if loc is None or ((loc.column << 3) | loc.row) != code:
            raise HarnessError(f"key map out of sync for {nm} code {code}")
    _KEYMAP_OK = True


# ----------------------------------------------------------------------------------------
# Rust executor


def rs_setup_ops(scn: Dict[str, Any], slot: int = 0) -> List[list]:
    ops: List[list] = [["m.new", slot, {"por": bool(scn.get("por")), "pce500_map": bool(scn.get("pce500_map")),
                                        "expand": rs_expand(scn), "device": scn.get("device")}]]
    rom = [0] * ROM_SIZE
    tail = scn["prog"]["rom_tail"]
    rom[ROM_SIZE - 6:] = tail
    # the crate's own helpers load a ROM image straight into the external array
    ops.append(["m.write", slot, 0xFFFFA, tail])
    for addr, data in scn["prog"]["image"]:
        ops.append(["m.write", slot, addr, data])
    for addr, data in scn.get("data", []):
        ops.append(["m.write", slot, addr, data])
    for off, val in scn.get("imem", []):
        ops.append(["m.write", slot, 0x100000 + off, [val]])
    for name, val in scn["regs"].items():
        ops.append(["m.setreg", slot, name, val])
    kb = scn.get("kb")
    if kb:
        ops.append(["m.kbcfg", slot, kb])
    t = scn["timer"]
    ops.append(["m.timer", slot, bool(t["enabled"]), int(t["mti"]), int(t["sti"])])
    return ops


def rs_expand(scn: Dict[str, Any]) -> List[list]:
    """RAM-expansion overlays are part of how the machine is put together (like the ROM image): a restarted
    machine gets them again, empty; their contents must come from the bundle."""
    return [[int(s), int(n), f"RAM Expansion ({int(n) // 1024}KB)"] for s, n in scn.get("expand", [])]


def rs_event(op: list, slot: int, scn: Dict[str, Any], scratch: str) -> List[list]:
    at, kind = op[0], op[1]
    if kind == "key":
        return [[at, "m.key", slot, op[2], op[3]]]
    if kind == "onk":
        return [[at, "m.onk", slot, op[2]]]
    if kind == "ackisr":
        return [[at, "m.ackisr", slot, op[2]]]
    if kind == "restart":
        return [[at, "m.restart", slot, os.path.join(scratch, f"snap-{os.getpid()}-{at}.pcsnap"),
                 {"expand": rs_expand(scn), "device": scn.get("device"),
                  **({"kb_repeat": bool(scn["kb"]["repeat"])} if "repeat" in (scn.get("kb") or {}) else {})}]]
    if kind == "rewind":
        return [[at, "m.rewind", slot, os.path.join(scratch, f"snap-{os.getpid()}-{at}.pcsnap"), int(op[2])]]
    if kind == "scramble":
        return [[at, "m.scramble", slot, op[2], op[3], op[4], op[5]] + list(op[6:8])]
    raise HarnessError(f"unknown machine op {kind}")


_SCRATCH: Optional[str] = None


def scratch_dir() -> str:
    """Per-process scratch directory outside /repo and /verif; files are deleted by the
    executors as soon as they are consumed."""
    global _SCRATCH
    if _SCRATCH is None or not os.path.isdir(_SCRATCH):
        _SCRATCH = tempfile.mkdtemp(prefix="verif-snap-", dir=os.environ.get("VERIF_SCRATCH_PARENT") or None)
        import atexit
        import shutil
        pid = os.getpid()
        path = _SCRATCH
        # forked pool workers leave through os._exit and skip atexit: the runner also sweeps
        # its workers' directories (VERIF_SCRATCH_PARENT, removed when run_check exits)
        atexit.register(lambda: os.getpid() == pid and shutil.rmtree(path, ignore_errors=True))
    return _SCRATCH


def run_rs_machine(scn: Dict[str, Any]) -> Dict[str, Any]:
    slot = 0
    ops = rs_setup_ops(scn, slot)
    events: List[list] = []
    for op in scn.get("ops", []):
        events.extend(rs_event(op, slot, scn, scratch_dir()))
    lo, hi = scn["prog"]["code"]
    ops.append(["m.run", slot, scn["boundaries"], events, scn.get("watch", []), lo, hi])
    if scn.get("final_state"):
        ops += [["m.lcd", slot], ["m.kbstate", slot], ["m.timerstate", slot], ["m.read", slot, 0x100000, 256]]
    out = host().call(ops)
    res = out[0]
    hist = {"obs": res["obs"], "err": res["err"], "evout": res["evout"],
            "preobs": {str(k): o for k, o in res["preobs"]}}
    if scn.get("final_state"):
        lcd, kb, tm, imem = out[1], out[2], out[3], out[4]
        snap = (kb or {}).get("snap") or {}
        hist["final"] = {
            "lcd": {"meta": _canon_lcd_meta((lcd or {}).get("meta")), "vram": (lcd or {}).get("vram"),
                    "pixels": (lcd or {}).get("pixels")},
            "kb": {"fifo": (kb or {}).get("fifo"), "kol": snap.get("kol"), "koh": snap.get("koh"),
                   "pressed": sorted(snap.get("pressed_keys") or []),
                   "keys": {k: [v["pressed"], v["debounced"], v["press_ticks"], v["release_ticks"], v["repeat_ticks"]]
                            for k, v in sorted((snap.get("key_states") or {}).items())
                            if v["pressed"] or v["debounced"]}},
            "timer": {k: tm.get(k) for k in ("enabled", "mti", "sti", "next_mti", "next_sti", "kb_irq")},
            "imem": imem,
        }
    return hist


def _canon_lcd_meta(meta):
    if not isinstance(meta, dict):
        return meta
    chips = []
    for c in meta.get("chips", []) or []:
        chips.append({k: c.get(k) for k in ("on", "start_line", "page", "y_address")})
    return {"chips": chips}


# ----------------------------------------------------------------------------------------
# Python executor


class _Tap:
    """Recording wrapper around PCE500Memory.write_byte installed on the instance: the
    memory seam where order inside one step matters (delivery pushes, IMR/ISR writes)."""

    def __init__(self, mem):
        self.mem = mem
        self.orig = mem.write_byte
        self.log: List[tuple] = []
        self.keyi: List[int] = []
        self.trise: List[list] = []          # [cycle_count, timer status bits that rose] for each ISR write
        mem.write_byte = self._write

    def _write(self, address, value, *args, **kwargs):
        a = address & 0xFFFFFF
        if a == 0x1000FC and (value & 4):
            raw = self.mem.external_memory
            if not (raw[len(raw) - 256 + 0xFC] & 4):
                # KEYI rises: remember how many key events are queued at that instant
                emu = getattr(self.mem, "_emulator", None)
                try:
                    self.keyi.append(len(emu.keyboard._matrix.fifo_snapshot()))
                except Exception:
                    self.keyi.append(-1)
        if a == 0x1000FC and (value & 3):
            raw = self.mem.external_memory
            rose = value & 3 & ~raw[len(raw) - 256 + 0xFC]
            if rose:
                emu = getattr(self.mem, "_emulator", None)
                self.trise.append([int(getattr(emu, "cycle_count", -1)), rose,
                                   1 if getattr(getattr(emu, "memory", None), "_cpu_write_active", False) else 0])
        if a == 0x1000FB:
            # IMR write: remember the ISR and IMR values at that instant
            raw = self.mem.external_memory
            n = len(raw)
            self.log.append((a, value & 0xFF, raw[n - 256 + 0xFC], raw[n - 256 + 0xFB]))
        return self.orig(address, value, *args, **kwargs)


def _py_imem(emu, off: int) -> int:
    raw = emu.memory.external_memory
    return raw[len(raw) - 256 + off]


def _py_read(emu, addr: int) -> int:
    a = addr & 0xFFFFFF
    if a >= 0x100000:
        return _py_imem(emu, a & 0xFF)
    # what the CPU would load, but without device side effects for plain RAM
    if 0xB8000 <= a <= 0xBFFFF:
        return emu.memory.external_memory[a]
    return emu.memory.read_byte(a) & 0xFF


def py_obs(emu, watch) -> list:
    from sc62015.pysc62015.emulator import RegisterName as R
    regs = emu.cpu.regs
    s = regs.get(R.S) & 0xFFFFF
    stack = [_py_read(emu, (s + i) & 0xFFFFF) for i in range(8)]
    w = [[_py_read(emu, a + i) for i in range(n)] for a, n in watch]
    kb = emu.keyboard
    mx = getattr(kb, "_matrix", None)
    return [
        regs.get(R.PC) & 0xFFFFF, regs.get(R.BA) & 0xFFFF, regs.get(R.I) & 0xFFFF,
        regs.get(R.X) & 0xFFFFFF, regs.get(R.Y) & 0xFFFFFF, regs.get(R.U) & 0xFFFFFF,
        regs.get(R.S) & 0xFFFFFF, regs.get(R.F) & 0xFF,
        1 if getattr(emu.cpu.state, "halted", False) else 0,
        _py_imem(emu, 0xFB), _py_imem(emu, 0xFC),
        emu.cycle_count, emu.instruction_count, int(emu.irq_counts.get("total", 0)),
        len(getattr(emu, "_interrupt_stack", [])),
        bool(emu._in_interrupt), bool(emu._irq_pending),
        emu._scheduler.next_mti, emu._scheduler.next_sti, bool(emu._key_irq_latched),
        len(mx.fifo_snapshot()) if mx is not None else 0,
        (mx._kil_latch if mx is not None else 0),
        stack, w,
    ]


def build_py_machine(scn: Dict[str, Any]):
    verify_keymap()
    from pce500.emulator import PCE500Emulator
    from sc62015.pysc62015.emulator import RegisterName as R
    import pce500.emulator as pe

    class _FakeTime:
        @staticmethod
        def time():
            return 0.0

        @staticmethod
        def perf_counter():
            return 0.0

    if getattr(pe.time, "__name__", "") == "time":
        pe.time = _FakeTime  # hygiene: start_time only; behaviour never reads the clock
    kb = scn.get("kb") or {}
    trace_kw = {"perfetto_trace": False}
    if scn.get("trace"):
        # tracing switched on, output into the scratch directory (the trace itself is not read)
        trace_kw = {"perfetto_trace": True,
                    "trace_path": os.path.join(scratch_dir(), f"trace-{os.getpid()}.perfetto-trace")}
    emu = PCE500Emulator(save_lcd_on_exit=False, keyboard_columns_active_high=bool(kb.get("active_high", True)), **trace_kw,
                         **(scn.get("ctor") or {}))
    rom = bytearray(ROM_SIZE)
    rom[ROM_SIZE - 6:] = bytes(scn["prog"]["rom_tail"])
    emu.load_rom(bytes(rom))
    for xs, xn in scn.get("expand", []):
        emu.expand_ram(int(xn), int(xs))
    raw = emu.memory.external_memory
    for addr, data in scn["prog"]["image"]:
        raw[addr:addr + len(data)] = bytes(data)
    for addr, data in scn.get("data", []):
        raw[addr:addr + len(data)] = bytes(data)
    for off, val in scn.get("imem", []):
        emu.memory.write_byte(0x100000 + off, val)
    for name, val in scn["regs"].items():
        emu.cpu.regs.set(getattr(R, name), val)
    mx = emu.keyboard._matrix
    if "press" in kb:
        mx.press_threshold = max(1, int(kb["press"]))
    if "release" in kb:
        mx.release_threshold = max(1, int(kb["release"]))
    if "repeat_delay" in kb:
        mx.repeat_delay = int(kb["repeat_delay"])
    if "repeat_interval" in kb:
        mx.repeat_interval = int(kb["repeat_interval"])
    if "kb_irq" in kb:
        emu._kb_irq_enabled = bool(kb["kb_irq"])
    t = scn["timer"]
    emu._timer_enabled = bool(t["enabled"])
    emu._timer_mti_period = int(t["mti"])
    emu._timer_sti_period = int(t["sti"])
    emu._scheduler.reset(cycle_base=emu.cycle_count)
    return emu


def py_apply_op(emu, op: list, scn: Dict[str, Any]):
    kind = op[1]
    if kind == "key":
        nm = key_name(op[3])
        if op[2]:
            emu.press_key(nm)
        else:
            emu.release_key(nm)
        return emu
    if kind == "onk":
        if op[2]:
            emu.press_key("KEY_ON")
        else:
            emu.release_key("KEY_ON")
        return emu
    if kind == "ackisr":
        cur = _py_imem(emu, 0xFC)
        emu.memory.write_byte(0x1000FC, cur & ~op[2] & 0xFF)
        return emu
    if kind == "restart":
        path = os.path.join(scratch_dir(), f"pysnap-{os.getpid()}.pcsnap")
        emu.save_snapshot(path)
        fresh = build_py_fresh(scn)
        try:
            quiet_load(fresh, path)
        finally:
            try:
                os.remove(path)
            except OSError:
                pass
        return fresh
    if kind == "rewind":
        # save, keep running the same object for d more steps, then load the bundle in place
        path = os.path.join(scratch_dir(), f"pysnap-{os.getpid()}.pcsnap")
        emu.save_snapshot(path)
        try:
            for _ in range(int(op[2])):
                try:
                    emu.step()
                except Exception:
                    break
            quiet_load(emu, path)
        finally:
            try:
                os.remove(path)
            except OSError:
                pass
        return emu
    if kind == "timers":
        emu._timer_enabled = bool(op[2])       # the host switches the timers off / on (as the isolating harnesses do)
        return emu
    if kind == "hostreset":
        # the reset button: PCE500Emulator.reset() clears RAM, so the host loads the firmware again (a loader after
        # reset) and lets it run from its entry; timer periods and the timers' on/off switch are configuration
        from sc62015.pysc62015.emulator import RegisterName as R
        emu.reset()
        raw = emu.memory.external_memory
        for addr, data in scn["prog"]["image"]:
            raw[addr:addr + len(data)] = bytes(data)
        for addr, data in scn.get("data", []):
            raw[addr:addr + len(data)] = bytes(data)
        for off, val in scn.get("imem", []):
            emu.memory.write_byte(0x100000 + off, val)
        for name, val in scn["regs"].items():
            emu.cpu.regs.set(getattr(R, name), val)
        return emu
    if kind == "scramble":
        from sc62015.pysc62015.emulator import RegisterName as R
        for i, v in enumerate(op[2][:14]):
            emu.cpu.regs.set(getattr(R, f"TEMP{i}"), v)
        emu.cpu.regs.call_sub_level = int(op[3])
        return emu
    raise HarnessError(f"unknown machine op {kind}")


def quiet_load(emu, path: str) -> None:
    """load_snapshot prints backend-mismatch warnings; keep check output clean."""
    import contextlib
    import io
    with contextlib.redirect_stdout(io.StringIO()):
        emu.load_snapshot(path)


def build_py_fresh(scn: Dict[str, Any]):
    """A freshly constructed emulator with the same constructor arguments and ROM (what a
    user restarting the emulator has) — everything else must come from the bundle."""
    from pce500.emulator import PCE500Emulator
    kb = scn.get("kb") or {}
    trace_kw = {"perfetto_trace": False}
    if scn.get("trace"):
        # tracing switched on, output into the scratch directory (the trace itself is not read)
        trace_kw = {"perfetto_trace": True,
                    "trace_path": os.path.join(scratch_dir(), f"trace-{os.getpid()}.perfetto-trace")}
    emu = PCE500Emulator(save_lcd_on_exit=False, keyboard_columns_active_high=bool(kb.get("active_high", True)), **trace_kw,
                         **(scn.get("ctor") or {}))
    rom = bytearray(ROM_SIZE)
    rom[ROM_SIZE - 6:] = bytes(scn["prog"]["rom_tail"])
    emu.load_rom(bytes(rom))
    for xs, xn in scn.get("expand", []):
        emu.expand_ram(int(xn), int(xs))
    return emu


def run_py_machine(scn: Dict[str, Any]) -> Dict[str, Any]:
    emu = build_py_machine(scn)
    tap = _Tap(emu.memory)
    watch = scn.get("watch", [])
    lo, hi = scn["prog"]["code"]
    obs = [py_obs(emu, watch) + [None]]
    ops = scn.get("ops", [])
    oi = 0
    err = None
    evout: List[list] = []
    preobs: Dict[str, list] = {}
    for k in range(scn["boundaries"]):
        had = oi < len(ops) and ops[oi][0] <= k
        while oi < len(ops) and ops[oi][0] <= k:
            new = py_apply_op(emu, ops[oi], scn)
            if new is not emu:
                emu = new
                tap = _Tap(emu.memory)
                evout.append([k, {"loaded": True}])
            elif ops[oi][1] == "rewind":
                evout.append([k, {"loaded": True, "in_place": True}])
            oi += 1
        cur = obs[-1]
        if had:
            cur = py_obs(emu, watch) + [None]
            preobs[str(k)] = cur
        pc = cur[O_PC]
        if not cur[O_PWR] and not (lo <= pc <= hi):
            err = {"at": k, "msg": "left_code"}
            break
        tap.log.clear()
        tap.keyi.clear()
        tap.trise.clear()
        pre_s = cur[O_S] & 0xFFFFF
        try:
            emu.step()
        except Exception as e:  # surfaced, never swallowed: the oracle decides
            err = {"at": k, "msg": f"{type(e).__name__}: {e}"}
            o = py_obs(emu, watch) + [None]
            obs.append(o)
            break
        o = py_obs(emu, watch)
        # delivery tap: first IMR write of the step together with ISR/IMR at that instant,
        # and the five bytes below the pre-step S
        extra = None
        if o[O_IRQ] != cur[O_IRQ]:
            first = tap.log[0] if tap.log else None
            frame = [_py_read(emu, (pre_s - 5 + i) & 0xFFFFF) for i in range(5)]
            extra = {"tap": list(first) if first else None, "frame": frame}
        if tap.keyi:
            extra = dict(extra or {})
            extra["keyi_fifo"] = list(tap.keyi)
        if tap.trise:
            extra = dict(extra or {})
            extra["timer_rise"] = [list(x) for x in tap.trise]
        o.append(extra)
        obs.append(o)
    hist = {"obs": obs, "err": err, "evout": evout, "preobs": preobs}
    if scn.get("final_state"):
        hist["final"] = py_final(emu)
    return hist


def py_final(emu) -> Dict[str, Any]:
    snap = emu.lcd.get_snapshot()
    vram: List[int] = []
    for chip in snap.chips:
        for row in chip.vram:
            vram.extend(int(v) & 0xFF for v in row)
    buf = emu.lcd.get_display_buffer()
    pixels = ["".join("1" if int(v) else "0" for v in row) for row in buf]
    mx = emu.keyboard._matrix
    ks = mx.snapshot_state()
    return {
        "lcd": {"meta": {"chips": [{"on": bool(c.on), "start_line": int(c.start_line), "page": int(c.page),
                                    "y_address": int(c.y_address)} for c in snap.chips]},
                "vram": vram, "pixels": pixels,
                "busy": [bool(c.state.busy) for c in emu.lcd.chips]},
        "kb": {"fifo": list(mx.fifo_snapshot()), "kol": ks["kol"], "koh": ks["koh"],
               "pressed": sorted(ks["pressed_keys"]),
               "keys": {k: [v["pressed"], v["debounced"], v["press_ticks"], v["release_ticks"], v["repeat_ticks"]]
                        for k, v in sorted(ks["key_states"].items()) if v["pressed"] or v["debounced"]}},
        "timer": {"enabled": bool(emu._timer_enabled), "mti": emu._timer_mti_period, "sti": emu._timer_sti_period,
                  "next_mti": emu._timer_next_mti, "next_sti": emu._timer_next_sti, "kb_irq": bool(emu._kb_irq_enabled)},
        "imem": [_py_imem(emu, i) for i in range(256)],
    }


def run_machine(scn: Dict[str, Any]) -> Dict[str, Any]:
    if scn["exec"] == "rs-machine":
        return run_rs_machine(scn)
    if scn["exec"] == "py-machine":
        return run_py_machine(scn)
    raise HarnessError("bad executor " + str(scn.get("exec")))


# ----------------------------------------------------------------------------------------
# scenario generation shared by machine-level properties


def gen_features(r: Rng, allow: Dict[str, bool]) -> Dict[str, bool]:
    """Swarm mask: each run enables a random subset of the allowed features."""
    f = {}
    for name, ok in allow.items():
        f[name] = bool(ok and r.chance(3, 5))
    return f


def gen_machine_scenario(r: Rng, executor: str, feat: Dict[str, bool], *, boundaries: int,
                         faulty: bool, size: Optional[int] = None) -> Dict[str, Any]:
    rp = r.child("program")
    prog = progen.gen_machine_program(rp, feat, size or rp.range(4, 16))
    rc = r.child("config")
    if feat.get("timers"):
        style = rc.below(10)
        if style < 7:
            mti, sti = rc.range(2, 40), rc.range(2, 60)
        elif style < 8:
            mti, sti = rc.range(2, 12), 0
        elif style < 9:
            mti, sti = 0, rc.range(2, 12)
        else:
            mti, sti = 2048, 512000
        timer = {"enabled": True, "mti": mti, "sti": sti}
    else:
        timer = {"enabled": bool(rc.chance(1, 4)), "mti": 0, "sti": 0} if rc.chance(1, 2) else \
                {"enabled": False, "mti": rc.range(2, 20), "sti": rc.range(2, 20)}
    imr0 = rc.choice([0x00, 0x80, 0x8F, 0x8F, 0x83, 0x0F, 0x84, 0x88, 0x81, 0x82, 0xFF])
    regs = {"PC": prog["entry"], "S": progen.S_INIT, "U": progen.U_INIT,
            "BA": rc.below(0x10000), "I": rc.below(0x10000), "X": rc.below(0x100000),
            "Y": rc.below(0x100000), "F": rc.below(4)}
    kb = {"press": rc.choice([1, 1, 2, 3, 6]), "release": rc.choice([1, 2, 6]),
          "repeat_delay": rc.choice([24, 6, 2]), "repeat_interval": rc.choice([6, 2]),
          "active_high": True}
    ops: List[list] = []
    ro = r.child("ops")
    if faulty:
        interesting = interesting_boundaries(prog, boundaries, ro)
        n_ev = ro.range(0, max(1, boundaries // 8))
        held: Dict[int, bool] = {}
        onk = False
        keys = ro.sample(all_key_codes(), 4)
        for _ in range(n_ev):
            at = ro.choice(interesting) if (interesting and ro.chance(1, 2)) else ro.below(boundaries)
            kind = ro.weighted([("key", 5 if feat.get("keys") else 0), ("onk", 4 if feat.get("onk") else 0),
                                ("chatter", 2 if feat.get("keys") else 0), ("none", 1)])
            if kind == "key":
                code = ro.choice(keys)
                ops.append([at, "key", 1, code])
                ops.append([min(boundaries - 1, at + ro.range(1, 30)), "key", 0, code])
            elif kind == "onk":
                ops.append([at, "onk", 1])
                ops.append([min(boundaries - 1, at + ro.range(1, 12)), "onk", 0])
            elif kind == "chatter":
                code = ro.choice(keys)
                t = at
                for _ in range(ro.range(2, 4)):
                    ops.append([t, "key", 1, code])
                    t = min(boundaries - 1, t + ro.range(0, 2))
                    ops.append([t, "key", 0, code])
                    t = min(boundaries - 1, t + ro.range(0, 2))
        ops.sort(key=lambda o: o[0])   # stable: same-boundary ops keep generation order
    scn = {
        "kind": "machine", "exec": executor, "prog": prog, "regs": regs,
        "imem": [[progen.IMR, imr0], [progen.ISR, 0]],
        "timer": timer, "kb": kb, "boundaries": boundaries, "ops": ops,
        "watch": [[progen.SCRATCH, 0x60], [progen.HSCRATCH, 0x40]],
        "feat": feat, "faulty": faulty,
    }
    return scn


def interesting_boundaries(prog: Dict[str, Any], boundaries: int, r: Rng) -> List[int]:
    """Fault placement relative to interesting instructions: without executing, estimate
    boundary indices at which the main loop reaches IMR/ISR writes, HALT/OFF/WAIT/IR and
    the handler — by walking the straight-line layout (one boundary per instruction).
    It is a bias, not an oracle: wrong guesses only make the placement uniform."""
    out: List[int] = []
    k = 0
    tags = sorted((int(a), v[1]) for a, v in prog["ins"].items())
    main_tags = [t for a, t in tags if a >= prog["main"] and a < prog["handler"]]
    if not main_tags:
        return out
    lap = len(main_tags)
    for k in range(min(boundaries, 4 * lap)):
        t = main_tags[k % lap]
        if t in ("MV_IMR", "OR_IMR", "AND_IMR", "MV_ISR", "AND_ISR", "HALT", "OFF", "WAIT", "IR",
                 "PUSHU_IMR", "POPU_IMR") or t.startswith("CALL"):
            for d in (-1, 0, 1, 2):
                if 0 <= k + d < boundaries:
                    out.append(k + d)
    return out
