"""Machine-level workload generator: small 'firmware' programs for the PC-E500 machines.

Two layers (DESIGN §3).  Skeleton instructions — whose meaning the oracles rely on — come
from the hand-written table SK below and are cross-checked against the repository's own
decoder at start-up (mismatch = HARNESS-ERROR "workload encoder out of sync", never a
violation).  Everything is laid out in RAM 0xB8000-0xBFFFF, which both machine models
treat as plain memory; the interrupt/reset vectors live in a ROM image at 0xC0000-0xFFFFF.

Workload discipline (restricts what is generated, never what is accepted): handlers begin
with NOP, are stack-neutral, touch only IMR/ISR/F and handler scratch; HALT/OFF/WAIT are
followed by two NOPs; subroutines are stack-neutral; S >= 0x100.
"""
from __future__ import annotations

from typing import Dict, List, Tuple

from .rng import Rng

CODE_BASE = 0xB8000
CODE_END = 0xB8FFF
SCRATCH = 0xB9000        # main-line scratch bytes
HSCRATCH = 0xB9080       # handler scratch bytes
S_INIT = 0xBFF00
U_INIT = 0xBFE00
ROM_BASE = 0xC0000
VEC_IRQ = 0xFFFFA
VEC_RESET = 0xFFFFD

IMR, ISR = 0xFB, 0xFC
KOL, KOH, KIL = 0xF0, 0xF1, 0xF2
ISR_MTI, ISR_STI, ISR_KEYI, ISR_ONKI = 1, 2, 4, 8

# name -> (bytes, expected rendered text); lower-case letters are operand placeholders
SK: Dict[str, Tuple[List[int], str]] = {
    "NOP": ([0x00], "NOP"),
    "RETI": ([0x01], "RETI"),
    "JP": ([0x02, 0x34, 0x12], "JP    1234"),
    "JPF": ([0x03, 0x56, 0x34, 0x0B], "JPF   B3456"),
    "CALL": ([0x04, 0x34, 0x12], "CALL  1234"),
    "CALLF": ([0x05, 0x56, 0x34, 0x0B], "CALLF B3456"),
    "RET": ([0x06], "RET"),
    "RETF": ([0x07], "RETF"),
    "MV_A": ([0x08, 0x55], "MV    A, 55"),
    "MV_BA": ([0x0A, 0x34, 0x12], "MV    BA, 1234"),
    "MV_I": ([0x0B, 0x03, 0x00], "MV    I, 0003"),
    "MV_S": ([0x0F, 0x00, 0xFF, 0x0B], "MV    S, BFF00"),
    "JR+": ([0x12, 0x02], "JR    +02"),
    "JR-": ([0x13, 0x02], "JR    -02"),
    "JRZ+": ([0x18, 0x02], "JRZ   +02"),
    "JRNZ+": ([0x1A, 0x02], "JRNZ  +02"),
    "JRNZ-": ([0x1B, 0x02], "JRNZ  -02"),
    "JRC+": ([0x1C, 0x02], "JRC   +02"),
    "JRNC+": ([0x1E, 0x02], "JRNC  +02"),
    "MV_IMR": ([0x32, 0xCC, 0xFB, 0x80], "MV    (IMR), 80"),
    "AND_IMR": ([0x32, 0x71, 0xFB, 0x7F], "AND   (IMR), 7F"),
    "OR_IMR": ([0x32, 0x79, 0xFB, 0x80], "OR    (IMR), 80"),
    "MV_ISR": ([0x32, 0xCC, 0xFC, 0x00], "MV    (ISR), 00"),
    "AND_ISR": ([0x32, 0x71, 0xFC, 0xFE], "AND   (ISR), FE"),
    "OR_ISR": ([0x32, 0x79, 0xFC, 0x01], "OR    (ISR), 01"),
    "TEST_ISR": ([0x32, 0x65, 0xFC, 0x01], "TEST  (ISR), 01"),
    "MV_KOL": ([0x32, 0xCC, 0xF0, 0xFF], "MV    (KOL), FF"),
    "MV_KOH": ([0x32, 0xCC, 0xF1, 0x07], "MV    (KOH), 07"),
    "MV_A_KIL": ([0x32, 0x80, 0xF2], "MV    A, (KIL)"),
    "PUSHU_IMR": ([0x2F], "PUSHU IMR"),
    "POPU_IMR": ([0x3F], "POPU  IMR"),
    "PUSHU_F": ([0x2E], "PUSHU F"),
    "POPU_F": ([0x3E], "POPU  F"),
    "PUSHU_A": ([0x28], "PUSHU A"),
    "POPU_A": ([0x38], "POPU  A"),
    "HALT": ([0xDE], "HALT"),
    "OFF": ([0xDF], "OFF"),
    "WAIT": ([0xEF], "WAIT"),
    "IR": ([0xFE], "IR"),
    "ST_A": ([0xA8, 0x00, 0x90, 0x0B], "MV    [B9000], A"),
    "LD_A": ([0x88, 0x00, 0x90, 0x0B], "MV    A, [B9000]"),
    "ADD_A": ([0x40, 0x01], "ADD   A, 01"),
    "SUB_A": ([0x48, 0x01], "SUB   A, 01"),
    "XOR_A": ([0x68, 0xFF], "XOR   A, FF"),
    "AND_A": ([0x70, 0x0F], "AND   A, 0F"),
    "OR_A": ([0x78, 0x01], "OR    A, 01"),
    "CMP_A": ([0x60, 0x01], "CMP   A, 01"),
    "INC_A": ([0x6C, 0x00], "INC   A"),
    "DEC_A": ([0x7C, 0x00], "DEC   A"),
    "SC": ([0x97], "SC"),
    "RC": ([0x9F], "RC"),
    "SWAP": ([0xEE], "SWAP  A"),
}

_VERIFIED = False


def verify_skeleton() -> None:
    """Cross-check SK against the repository decoder (once per process)."""
    global _VERIFIED
    if _VERIFIED:
        return
    from .rshost import HarnessError
    try:
        from sc62015.pysc62015.instr import decode, OPCODES
        from binja_test_mocks.tokens import asm_str
    except Exception as e:  # pragma: no cover
        raise HarnessError(f"cannot import repository decoder: {e!r}")
    for name, (bs, text) in SK.items():
        try:
            ins = decode(bytes(bs) + b"\x00" * 6, CODE_BASE, OPCODES)
            got = asm_str(ins.render())
            ln = ins.length()
        except Exception as e:
            raise HarnessError(f"workload encoder out of sync: {name} {bs} -> {e!r}")
        if got != text or ln != len(bs):
            raise HarnessError(
                f"workload encoder out of sync: {name} {bs} decodes to {got!r} len {ln}, expected {text!r} len {len(bs)}")
    _VERIFIED = True


class Asm:
    """Byte emitter with an instruction map (addr -> (len, tag))."""

    def __init__(self, base: int):
        self.base = base
        self.buf: List[int] = []
        self.ins: List[Tuple[int, int, str]] = []

    @property
    def pc(self) -> int:
        return self.base + len(self.buf)

    def emit(self, bs: List[int], tag: str) -> int:
        addr = self.pc
        self.ins.append((addr, len(bs), tag))
        self.buf.extend(b & 0xFF for b in bs)
        return addr

    def op(self, name: str, *operands: int, tag: str = "") -> int:
        bs = list(SK[name][0])
        n = len(operands)
        if n:
            bs[len(bs) - n:] = [o & 0xFF for o in operands]
        return self.emit(bs, tag or name)

    def lmn(self, name: str, addr: int, tag: str = "") -> int:
        return self.op(name, addr & 0xFF, (addr >> 8) & 0xFF, (addr >> 16) & 0xFF, tag=tag)


IMR_VALUES = [0x00, 0x80, 0x81, 0x82, 0x83, 0x84, 0x88, 0x8C, 0x8F, 0x0F, 0x01, 0x04, 0x08, 0xFF, 0x7F, 0x87]


def _alu(a: Asm, r: Rng) -> None:
    k = r.below(11)
    if k == 0:
        a.op("MV_A", r.below(256))
    elif k == 1:
        a.op("ADD_A", r.below(256))
    elif k == 2:
        a.op("SUB_A", r.below(256))
    elif k == 3:
        a.op("XOR_A", r.below(256))
    elif k == 4:
        a.op("AND_A", r.below(256))
    elif k == 5:
        a.op("OR_A", r.below(256))
    elif k == 6:
        a.op("CMP_A", r.below(256))
    elif k == 7:
        a.op("INC_A")
    elif k == 8:
        a.op("SC" if r.chance(1, 2) else "RC")
    elif k == 9:
        a.op("SWAP")
    else:
        a.op("MV_BA", r.below(256), r.below(256))


def gen_machine_program(r: Rng, feat: Dict[str, bool], size: int) -> Dict:
    """Return {"image": [[addr, bytes]], "main":, "handler":, "ins": {addr: [len, tag]}, ...}."""
    verify_skeleton()
    rh = r.child("handler-lowpower")     # its own stream: the draws below leave every other choice where it was
    a = Asm(CODE_BASE)
    # ---- prologue (executed once): strobe the keyboard columns so keys are visible
    if feat.get("keys"):
        a.op("MV_KOL", r.choice([0xFF, 0xFF, 0x01, 0x0F, 0x00]))
        a.op("MV_KOH", r.choice([0x07, 0x07, 0x00, 0x01]))
    main = a.pc

    bare: Dict[str, list] = {}     # address of a hand-built-frame RETI -> [PC, F, IMR, S] it must restore
    subs: List[int] = []      # filled after main is laid out (forward addresses patched)
    patches: List[Tuple[int, str, int]] = []   # (offset in buf, kind, sub index)
    n_sub = r.range(1, 3) if feat.get("calls") else 0

    def stmt(depth: int, in_loop: bool) -> None:
        pal = [("nop", 6), ("alu", 0 if in_loop else 8), ("imr", 10 if feat.get("imr_writes") else 0),
               ("isr", 5 if feat.get("isr_writes") else 0), ("store", 3),
               ("wait", 4 if feat.get("wait") else 0), ("halt", 3 if feat.get("halt") else 0),
               ("off", 2 if feat.get("off") else 0), ("ir", 2 if feat.get("ir") else 0),
               ("call", 4 if n_sub else 0), ("pushpop", 3 if feat.get("imr_writes") and depth == 0 else 0),
               ("loop", 3 if depth == 0 and not in_loop else 0),
               ("lcd", 6 if feat.get("lcd") else 0), ("kil", 3 if feat.get("kil_reads") else 0),
               ("strobe", 2 if feat.get("kil_reads") else 0),
               ("romw", 3 if feat.get("rom_writes") else 0),
               ("cardrw", 4 if feat.get("card_rw") and not in_loop else 0),
               ("xram", 5 if feat.get("xram") else 0),
               ("crit", 3 if feat.get("imr_writes") and feat.get("isr_writes") and depth == 0 and not in_loop else 0),
               ("bare_reti", 2 if feat.get("bare_reti") and depth == 0 and not in_loop else 0),
               ("selfmod", 3 if feat.get("selfmod") and depth == 0 and not in_loop else 0),
               ("ioreg", 4 if feat.get("ioregs") and not in_loop else 0)]
        kind = r.weighted([p for p in pal if p[1] > 0])
        if kind == "nop":
            a.op("NOP")
        elif kind == "alu":
            _alu(a, r)
        elif kind == "imr":
            w = r.below(3)
            if w == 0:
                a.op("MV_IMR", r.choice(IMR_VALUES))
            elif w == 1:
                a.op("OR_IMR", r.choice([0x80, 0x80, 0x81, 0x82, 0x84, 0x88, 0x0F, 0x8F]))
            else:
                a.op("AND_IMR", r.choice([0x7F, 0x7F, 0xFE, 0xFD, 0xFB, 0xF7, 0xF0, 0x80]))
        elif kind == "isr":
            w = r.below(4)
            if w == 0:
                a.op("MV_ISR", r.choice([0x00, 0x00, 0x01, 0x02, 0x04, 0x08, 0x03]))
            elif w == 1:
                a.op("AND_ISR", r.choice([0xFE, 0xFD, 0xFB, 0xF7, 0xFC, 0xF0, 0x00]))
            elif w == 2:
                a.op("OR_ISR", r.choice([0x01, 0x02, 0x03]))
            else:
                a.op("TEST_ISR", r.choice([0x01, 0x02, 0x04, 0x08, 0x0F]))
        elif kind == "store":
            if r.chance(1, 2):
                a.lmn("ST_A", SCRATCH + r.below(0x40))
            else:
                a.lmn("LD_A", SCRATCH + r.below(0x40))
        elif kind == "wait":
            a.op("MV_I", r.range(1, 14), 0)
            a.op("WAIT")
            a.op("NOP")
            a.op("NOP")
        elif kind == "halt":
            a.op("HALT")
            a.op("NOP")
            a.op("NOP")
        elif kind == "off":
            a.op("OFF")
            a.op("NOP")
            a.op("NOP")
        elif kind == "ir":
            a.op("IR")
        elif kind == "call":
            idx = r.below(n_sub)
            far = feat.get("far_calls") and r.chance(1, 3)
            off = len(a.buf)
            if far:
                a.op("CALLF", 0, 0, 0, tag=f"CALLF:{idx}")
                patches.append((off, "callf", idx))
            else:
                a.op("CALL", 0, 0, tag=f"CALL:{idx}")
                patches.append((off, "call", idx))
        elif kind == "lcd":
            # HD61202 traffic through either window; low nibble = R/W, D/I, chip select
            base = r.choice([0x2000, 0xA000])
            if r.chance(3, 4):
                nib = r.choice([0x0, 0x4, 0x8, 0x2, 0x6, 0xA, 0xC])      # writes (instruction / data)
                if nib & 2:
                    val = r.below(256)
                else:
                    val = r.choice([0x3F, 0x3E, 0x40 | r.below(64), 0xB8 | r.below(8), 0xC0 | r.below(64)])
                if not in_loop:
                    a.op("MV_A", val)
                a.lmn("ST_A", base | nib | (r.below(16) << 4 if r.chance(1, 4) else 0), tag="LCD_W")
            elif not in_loop:
                nib = r.choice([0x5, 0x9, 0x7, 0xB, 0x1, 0x3, 0xD])      # reads (status / data)
                a.lmn("LD_A", base | nib, tag="LCD_R")
            else:
                a.op("NOP")
        elif kind == "romw":
            # stores into read-only / unpopulated windows followed by a read-back
            addr = r.choice([0xC1000, 0xC1001, 0xFFFF0, 0x01000, 0x3FFFF, 0x10000]) + r.below(4)
            if not in_loop:
                a.op("MV_A", r.range(1, 255))
            a.lmn("ST_A", addr, tag="ROM_W")
            if not in_loop:
                a.lmn("LD_A", addr, tag="ROM_R")
        elif kind == "bare_reti":
            # a task switcher's return: interrupts off, a five-byte frame (IMR, F, PC) built by hand just below the
            # stack top, S pointed at it, RETI.  No interrupt was taken, so the RETI serves no request: it must restore
            # PC, F, IMR and S from the frame and leave every status bit alone.
            a.op("AND_IMR", 0x7F)
            imr_v = r.choice([0x80, 0x8F, 0x00, 0x0F, 0x83, 0x88, 0x8C])
            f_v = r.below(4)
            base = S_INIT - 5
            # length of what follows up to and including RETI: 5 x (MV_A 2 + ST_A 4) + MV_S 4 + RETI 1
            cont = a.pc + 5 * 6 + 4 + 1
            for off, val in ((0, imr_v), (1, f_v), (2, cont & 0xFF), (3, (cont >> 8) & 0xFF), (4, (cont >> 16) & 0xFF)):
                a.op("MV_A", val)
                a.lmn("ST_A", base + off, tag="BARE:frame")
            a.op("MV_S", base & 0xFF, (base >> 8) & 0xFF, (base >> 16) & 0xFF, tag="BARE:setS")
            at = a.op("RETI", tag="BARE_RETI")
            bare[str(at)] = [cont, f_v, imr_v, S_INIT]
            assert a.pc == cont
        elif kind == "ioreg":
            # the E-port input cells and the UART registers of the internal memory: plain cells in both machine models,
            # written and read back by firmware
            cell = r.choice([0xF5, 0xF6, 0xF7, 0xF8, 0xF8, 0xF9, 0xFA])
            if r.chance(2, 3):
                a.emit([0x32, 0xCC, cell, r.choice([0x00, 0x00, 0xFF, 0x18, 0x5A, r.below(256)])], "IOREG_W")
            else:
                a.emit([0x32, 0x80, cell], "IOREG_R")
                a.lmn("ST_A", SCRATCH + 0x50 + r.below(8))
        elif kind == "selfmod":
            # code that patches itself (a RAM-resident routine adjusting one of its own instructions): the site is executed,
            # its opcode byte is rewritten further down, and the main loop comes back to it on the next lap
            site = a.op("NOP", tag="SM:site")
            for _ in range(r.range(0, 2)):
                a.op("NOP")
            a.op("MV_A", r.choice([0x97, 0x9F, 0x97, 0x00, 0xEE]))      # SC / RC / NOP / SWAP A
            a.lmn("ST_A", site, tag="SM:patch")
        elif kind == "crit":
            # a critical section of a polling main program: interrupts off, time passes (requests pile up),
            # one status bit is acknowledged by hand, interrupts on again
            a.op("AND_IMR", 0x7F)
            if feat.get("wait") and r.chance(1, 2):
                a.op("MV_I", r.range(1, 14), 0)
                a.op("WAIT")
                a.op("NOP")
                a.op("NOP")
            else:
                for _ in range(r.range(1, 4)):
                    a.op("NOP")
            a.op("AND_ISR", r.choice([0xFE, 0xFD, 0xFB, 0xF7, 0xF7]))
            a.op("OR_IMR", r.choice([0x80, 0x80, 0x8F]))
        elif kind == "xram":
            # store into a RAM-expansion overlay (first / last bytes and just outside it), then read it back
            xs, xn = feat["xram"]
            addr = r.choice([xs, xs + 1, xs + xn - 1, xs + xn - 1, xs + xn - 2, xs - 1, xs + xn, xs + xn // 2])
            if not in_loop:
                a.op("MV_A", r.range(1, 255))
            a.lmn("ST_A", addr, tag="XRAM_W")
            if not in_loop:
                a.lmn("LD_A", addr, tag="XRAM_R")
        elif kind == "cardrw":
            # read-modify-write of a cell in the memory-card window (whatever a previous machine left there shows up
            # in A and in the scratch cell)
            addr = 0x40000 + r.choice([0x10, 0x11, 0x7FF0, 0xFFFE])
            a.lmn("LD_A", addr, tag="CARD_R")
            a.op("ADD_A", r.range(1, 9))
            a.lmn("ST_A", addr, tag="CARD_W")
            a.lmn("ST_A", SCRATCH + 0x40 + r.below(8))
        elif kind == "kil":
            if in_loop:
                a.op("NOP")
            else:
                a.op("MV_A_KIL")
        elif kind == "strobe":
            val = r.choice([0xFF, 0x00, 0x01, 0x02, 0x10, 0x55])
            if feat.get("wide_strobe") and r.chance(1, 3):
                # the strobe register written as the upper byte of a 16-bit store that starts below it
                # (MVW (AMC),imm16: AMC <- 00, KOL <- val)
                a.emit([0x32, 0xCD, 0xEF, 0x00, val], "MVW_AMC_KOL")
            else:
                a.op("MV_KOL", val)
        elif kind == "pushpop":
            a.op("PUSHU_IMR")
            for _ in range(r.range(1, 3)):
                stmt(depth + 1, in_loop)
            a.op("POPU_IMR")
        elif kind == "loop":
            a.op("MV_A", r.range(1, 4))
            top = a.pc
            for _ in range(r.range(1, 3)):
                stmt(depth + 1, True)
            a.op("DEC_A")
            jr = a.pc
            d = jr + 2 - top
            a.op("JRNZ-", d)

    for _ in range(size):
        stmt(0, False)
    # close the main loop
    a.op("JP", main & 0xFF, (main >> 8) & 0xFF, tag="JP:main")

    # ---- subroutines (stack-neutral bodies); sub i is near (RET) or far (RETF) as called
    sub_kind: Dict[int, str] = {}
    for off, kind, idx in patches:
        prev = sub_kind.get(idx)
        if prev is None:
            sub_kind[idx] = kind
        elif prev != kind:
            # a routine is entered by one call flavour only: retarget to a twin index
            pass
    sub_addr: Dict[Tuple[int, str], int] = {}
    for off, kind, idx in patches:
        key = (idx, kind)
        if key not in sub_addr:
            sub_addr[key] = a.pc
            a.op("NOP", tag=f"SUB:{idx}:{kind}")
            for _ in range(r.range(0, 3)):
                w = r.below(4)
                if w == 0:
                    a.op("NOP")
                elif w == 1:
                    a.lmn("ST_A", SCRATCH + 0x40 + r.below(0x20))
                elif w == 2:
                    a.op("PUSHU_A")
                    a.op("NOP")
                    a.op("POPU_A")
                else:
                    a.op("SC" if r.chance(1, 2) else "RC")
            a.op("RET" if kind == "call" else "RETF")
        tgt = sub_addr[key]
        if kind == "call":
            a.buf[off + 1] = tgt & 0xFF
            a.buf[off + 2] = (tgt >> 8) & 0xFF
        else:
            a.buf[off + 1] = tgt & 0xFF
            a.buf[off + 2] = (tgt >> 8) & 0xFF
            a.buf[off + 3] = (tgt >> 16) & 0xFF

    # ---- interrupt handler
    handler = a.pc
    a.op("NOP", tag="HANDLER")
    style = {
        "reenable": bool(feat.get("nested") and r.chance(1, 2)),
        "clear": r.choice(["none", "all", "some", "timers"]),
    }
    body = r.range(0, 4)
    slots = list(range(body + 2))
    re_slot = r.choice(slots) if style["reenable"] else -1
    cl_slot = r.choice(slots) if style["clear"] != "none" else -1
    # a handler that puts the machine to sleep itself (auto power-off from the timer handler, "wait for the ON key"):
    # HALT or OFF inside the handler, after the acknowledge when there is one
    low = None
    if feat.get("h_lowpower") and rh.chance(1, 2):
        low = rh.choice(["HALT", "HALT", "OFF"])
        low_slot = rh.choice([s for s in slots if s >= cl_slot])
        style["lowpower"] = low
    for sidx in slots:
        if sidx == re_slot:
            a.op("OR_IMR", 0x80, tag="H:reenable")
        if sidx == cl_slot:
            mask = {"all": 0x00, "some": r.choice([0xFE, 0xFD, 0xFB, 0xF7, 0xFC, 0xF3]), "timers": 0xFC}[style["clear"]]
            a.op("AND_ISR", mask, tag="H:clear")
        if low and sidx == low_slot:
            a.op(low, tag="H:" + low)
            a.op("NOP")
            a.op("NOP")
        if sidx < body:
            w = r.below(5)
            if w == 0:
                a.op("NOP")
            elif w == 1:
                a.lmn("ST_A", HSCRATCH + r.below(0x40))
            elif w == 2:
                a.op("TEST_ISR", r.choice([1, 2, 4, 8]))
            elif w == 3:
                a.op("SC" if r.chance(1, 2) else "RC")
            else:
                a.op("AND_IMR", r.choice([0x7F, 0xFE, 0xFD, 0xFB, 0xF7]), tag="H:mask")
    a.op("RETI")
    end = a.pc
    if end > CODE_END:
        # keep the invariant "code fits"; generator sizes make this unreachable in practice
        raise ValueError("generated program too large")

    rom = [0] * 6
    rom[0:3] = [handler & 0xFF, (handler >> 8) & 0xFF, (handler >> 16) & 0xFF]
    rom[3:6] = [main & 0xFF, (main >> 8) & 0xFF, (main >> 16) & 0xFF]
    return {
        "image": [[CODE_BASE, list(a.buf)]],
        "rom_tail": rom,                 # bytes for 0xFFFFA..0xFFFFF
        "entry": CODE_BASE,
        "main": main,
        "handler": handler,
        "code": [CODE_BASE, end - 1],
        "ins": {str(addr): [ln, tag] for addr, ln, tag in a.ins},
        "style": style,
        "bare": bare,
    }
