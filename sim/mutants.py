"""Sensitivity: run the quick check of a property against each seeded change in /verif/seeded.

Each change is applied to /repo with `git apply`, the check runs (evidence and replay files go
to a scratch directory so the committed evidence is untouched), and the change is undone
with `git checkout -- .` straight afterwards.  Results go to /verif/seeded/RESULTS.json.
"""
from __future__ import annotations

import json
import os
import re
import subprocess
import sys
import tempfile
import time
from pathlib import Path

VERIF = Path(__file__).resolve().parent.parent
SEEDED = VERIF / "seeded"
REPO = "/repo"
# VERIF_MUT_SCRATCH=<dir>: apply the changes to a scratch worktree of /repo's HEAD at <dir> (outside /repo
# and /verif) and point the checks at it with VERIF_REPO, so that /repo itself stays untouched while
# background runs use it.  The worktree and its build output are removed at the end.
SCRATCH = os.environ.get("VERIF_MUT_SCRATCH")


def _git(*args) -> subprocess.CompletedProcess:
    return subprocess.run(["git", "-C", REPO, *args], capture_output=True, text=True)


def main(props, only=None, tier="quick") -> int:
    global REPO
    if SCRATCH:
        subprocess.run(["git", "-C", "/repo", "worktree", "remove", "--force", SCRATCH], capture_output=True)
        add = subprocess.run(["git", "-C", "/repo", "worktree", "add", "--detach", SCRATCH, "HEAD"],
                             capture_output=True, text=True)
        if add.returncode != 0:
            print("HARNESS-ERROR cannot create scratch worktree: " + add.stderr.strip()[:200])
            return 2
        REPO = SCRATCH
        os.environ["VERIF_REPO"] = SCRATCH
    try:
        return _main(props, only, tier)
    finally:
        if SCRATCH:
            from sim import build
            subprocess.run(["rm", "-rf", str(build.workspace_dir(Path(SCRATCH).resolve()))])
            subprocess.run(["git", "-C", "/repo", "worktree", "remove", "--force", SCRATCH], capture_output=True)


def _main(props, only=None, tier="quick") -> int:
    if _git("status", "--porcelain").stdout.strip():
        print("HARNESS-ERROR /repo has uncommitted changes; refusing to apply seeded changes")
        return 2
    results_path = SEEDED / "RESULTS.json"
    results = json.loads(results_path.read_text()) if results_path.exists() else {}
    dirs = sorted(p for p in SEEDED.iterdir() if p.is_dir() and (p / "patch.diff").exists())
    missed = 0
    for d in dirs:
        meta = json.loads((d / "meta.json").read_text())
        prop = meta["property"]
        if props and prop not in props:
            continue
        if only and only.startswith("round="):
            if int(meta.get("round", 1)) != int(only.split("=")[1]):
                continue
        elif only and only not in d.name:
            continue
        checks = meta.get("checks") or [prop]
        scratch = tempfile.mkdtemp(prefix="verif-mut-")
        env = dict(os.environ)
        env.update({"VERIF_EVIDENCE_DIR": scratch, "VERIF_REPLAY_DIR": scratch, "VERIF_SKIP_DETERMINISM": "1"})
        ap = _git("apply", str(d / "patch.diff"))
        if ap.returncode != 0:
            print(f"{d.name}: patch does not apply: {ap.stderr.strip()[:200]}")
            results[d.name] = {"applies": False}
            continue
        caught_by = []
        detail = {}
        t0 = time.time()
        try:
            for chk in checks:
                proc = subprocess.run([str(VERIF / "bin" / "verif"), "check", chk, "--tier", tier],
                                      env=env, capture_output=True, text=True, timeout=3600)
                classes = sorted(set(re.findall(r"^violation: (\S+ \S+)", proc.stdout, re.M)))
                detail[chk] = {"exit": proc.returncode, "classes": classes,
                               "tail": proc.stdout.strip().splitlines()[-1:] if proc.stdout.strip() else []}
                if proc.returncode == 1 and "VIOLATION property=" + chk in proc.stdout:
                    caught_by.append(chk)
        finally:
            _git("checkout", "--", ".")
            subprocess.run(["rm", "-rf", scratch])
        ok = bool(caught_by)
        missed += 0 if ok else 1
        results[d.name] = {"applies": True, "caught": ok, "caught_by": caught_by, "detail": detail,
                           "wall_s": round(time.time() - t0, 1), "tier": tier}
        print(f"{d.name}: {'CAUGHT by ' + ','.join(caught_by) if ok else 'MISSED'}  "
              f"{ {k: v['classes'] for k, v in detail.items()} }")
        results_path.write_text(json.dumps(results, indent=1, sort_keys=True))
    if _git("status", "--porcelain").stdout.strip():
        print("HARNESS-ERROR /repo not clean after mutants run")
        return 2
    print(f"mutants: {len(results)} recorded, {missed} missed in this run")
    return 0
