//! Minimal offline replacement for the `zip` 0.6 crate: just enough of
//! `ZipWriter`, `ZipArchive`, `FileOptions`, `CompressionMethod` and
//! `result::ZipError` for sc62015-core's snapshot.rs to compile and run
//! unmodified.  Stored (0) and deflated (8) entries, no zip64, no encryption.

use std::collections::HashMap;
use std::io::{self, Cursor, Read, Seek, SeekFrom, Write};

pub mod result {
    use std::fmt;
    use std::io;

    #[derive(Debug)]
    pub enum ZipError {
        Io(io::Error),
        InvalidArchive(&'static str),
        UnsupportedArchive(&'static str),
        FileNotFound,
    }

    impl fmt::Display for ZipError {
        fn fmt(&self, f: &mut fmt::Formatter<'_>) -> fmt::Result {
            match self {
                ZipError::Io(e) => write!(f, "{e}"),
                ZipError::InvalidArchive(m) => write!(f, "invalid Zip archive: {m}"),
                ZipError::UnsupportedArchive(m) => write!(f, "unsupported Zip archive: {m}"),
                ZipError::FileNotFound => write!(f, "specified file not found in archive"),
            }
        }
    }

    impl std::error::Error for ZipError {}

    impl From<io::Error> for ZipError {
        fn from(e: io::Error) -> Self {
            ZipError::Io(e)
        }
    }

    impl From<ZipError> for io::Error {
        fn from(e: ZipError) -> Self {
            io::Error::new(io::ErrorKind::Other, e)
        }
    }

    pub type ZipResult<T> = Result<T, ZipError>;
}

use result::{ZipError, ZipResult};

#[derive(Clone, Copy, Debug, PartialEq, Eq)]
pub enum CompressionMethod {
    Stored,
    Deflated,
}

pub mod write {
    use super::CompressionMethod;

    #[derive(Clone, Copy, Debug)]
    pub struct FileOptions {
        pub(crate) method: CompressionMethod,
    }

    impl Default for FileOptions {
        fn default() -> Self {
            FileOptions {
                method: CompressionMethod::Deflated,
            }
        }
    }

    impl FileOptions {
        pub fn compression_method(mut self, method: CompressionMethod) -> Self {
            self.method = method;
            self
        }
    }

    pub use super::ZipWriter;
}

struct CentralEntry {
    name: String,
    method: u16,
    crc: u32,
    comp_size: u32,
    size: u32,
    offset: u32,
}

pub struct ZipWriter<W: Write + Seek> {
    inner: Option<W>,
    entries: Vec<CentralEntry>,
    current: Option<(String, CompressionMethod, Vec<u8>)>,
    written: u64,
}

impl<W: Write + Seek> ZipWriter<W> {
    pub fn new(inner: W) -> Self {
        ZipWriter {
            inner: Some(inner),
            entries: Vec::new(),
            current: None,
            written: 0,
        }
    }

    fn flush_current(&mut self) -> ZipResult<()> {
        let Some((name, method, data)) = self.current.take() else {
            return Ok(());
        };
        let crc = crc32fast::hash(&data);
        let (method_id, payload) = match method {
            CompressionMethod::Stored => (0u16, data.clone()),
            CompressionMethod::Deflated => (8u16, miniz_oxide::deflate::compress_to_vec(&data, 6)),
        };
        let offset = self.written as u32;
        let mut hdr = Vec::with_capacity(30 + name.len());
        hdr.extend_from_slice(&0x0403_4b50u32.to_le_bytes());
        hdr.extend_from_slice(&20u16.to_le_bytes()); // version needed
        hdr.extend_from_slice(&0u16.to_le_bytes()); // flags
        hdr.extend_from_slice(&method_id.to_le_bytes());
        hdr.extend_from_slice(&0u16.to_le_bytes()); // time
        hdr.extend_from_slice(&0x0021u16.to_le_bytes()); // date 1980-01-01
        hdr.extend_from_slice(&crc.to_le_bytes());
        hdr.extend_from_slice(&(payload.len() as u32).to_le_bytes());
        hdr.extend_from_slice(&(data.len() as u32).to_le_bytes());
        hdr.extend_from_slice(&(name.len() as u16).to_le_bytes());
        hdr.extend_from_slice(&0u16.to_le_bytes()); // extra len
        hdr.extend_from_slice(name.as_bytes());
        let w = self.inner.as_mut().expect("writer finished");
        w.write_all(&hdr)?;
        w.write_all(&payload)?;
        self.written += (hdr.len() + payload.len()) as u64;
        self.entries.push(CentralEntry {
            name,
            method: method_id,
            crc,
            comp_size: payload.len() as u32,
            size: data.len() as u32,
            offset,
        });
        Ok(())
    }

    pub fn start_file<S: Into<String>>(
        &mut self,
        name: S,
        options: write::FileOptions,
    ) -> ZipResult<()> {
        self.flush_current()?;
        self.current = Some((name.into(), options.method, Vec::new()));
        Ok(())
    }

    pub fn finish(&mut self) -> ZipResult<W> {
        self.flush_current()?;
        let cd_offset = self.written as u32;
        let mut cd = Vec::new();
        for e in &self.entries {
            cd.extend_from_slice(&0x0201_4b50u32.to_le_bytes());
            cd.extend_from_slice(&20u16.to_le_bytes()); // version made by
            cd.extend_from_slice(&20u16.to_le_bytes()); // version needed
            cd.extend_from_slice(&0u16.to_le_bytes()); // flags
            cd.extend_from_slice(&e.method.to_le_bytes());
            cd.extend_from_slice(&0u16.to_le_bytes());
            cd.extend_from_slice(&0x0021u16.to_le_bytes());
            cd.extend_from_slice(&e.crc.to_le_bytes());
            cd.extend_from_slice(&e.comp_size.to_le_bytes());
            cd.extend_from_slice(&e.size.to_le_bytes());
            cd.extend_from_slice(&(e.name.len() as u16).to_le_bytes());
            cd.extend_from_slice(&0u16.to_le_bytes()); // extra
            cd.extend_from_slice(&0u16.to_le_bytes()); // comment
            cd.extend_from_slice(&0u16.to_le_bytes()); // disk
            cd.extend_from_slice(&0u16.to_le_bytes()); // int attrs
            cd.extend_from_slice(&0u32.to_le_bytes()); // ext attrs
            cd.extend_from_slice(&e.offset.to_le_bytes());
            cd.extend_from_slice(e.name.as_bytes());
        }
        let n = self.entries.len() as u16;
        let mut eocd = Vec::new();
        eocd.extend_from_slice(&0x0605_4b50u32.to_le_bytes());
        eocd.extend_from_slice(&0u16.to_le_bytes());
        eocd.extend_from_slice(&0u16.to_le_bytes());
        eocd.extend_from_slice(&n.to_le_bytes());
        eocd.extend_from_slice(&n.to_le_bytes());
        eocd.extend_from_slice(&(cd.len() as u32).to_le_bytes());
        eocd.extend_from_slice(&cd_offset.to_le_bytes());
        eocd.extend_from_slice(&0u16.to_le_bytes());
        let mut w = self.inner.take().expect("writer finished");
        w.write_all(&cd)?;
        w.write_all(&eocd)?;
        w.flush()?;
        Ok(w)
    }
}

impl<W: Write + Seek> Write for ZipWriter<W> {
    fn write(&mut self, buf: &[u8]) -> io::Result<usize> {
        match self.current.as_mut() {
            Some((_, _, data)) => {
                data.extend_from_slice(buf);
                Ok(buf.len())
            }
            None => Err(io::Error::new(
                io::ErrorKind::Other,
                "No file has been started",
            )),
        }
    }
    fn flush(&mut self) -> io::Result<()> {
        Ok(())
    }
}

pub mod read {
    pub use super::{ZipArchive, ZipFile};
}

struct ReadEntry {
    method: u16,
    crc: u32,
    comp_size: usize,
    size: usize,
    offset: usize,
}

pub struct ZipArchive<R> {
    _reader: R,
    data: Vec<u8>,
    entries: HashMap<String, ReadEntry>,
    names: Vec<String>,
}

pub struct ZipFile<'a> {
    cursor: Cursor<Vec<u8>>,
    name: String,
    _marker: std::marker::PhantomData<&'a ()>,
}

impl<'a> ZipFile<'a> {
    pub fn name(&self) -> &str {
        &self.name
    }
    pub fn size(&self) -> u64 {
        self.cursor.get_ref().len() as u64
    }
}

impl<'a> Read for ZipFile<'a> {
    fn read(&mut self, buf: &mut [u8]) -> io::Result<usize> {
        self.cursor.read(buf)
    }
}

fn u16_at(d: &[u8], o: usize) -> ZipResult<u16> {
    d.get(o..o + 2)
        .map(|b| u16::from_le_bytes([b[0], b[1]]))
        .ok_or(ZipError::InvalidArchive("truncated"))
}
fn u32_at(d: &[u8], o: usize) -> ZipResult<u32> {
    d.get(o..o + 4)
        .map(|b| u32::from_le_bytes([b[0], b[1], b[2], b[3]]))
        .ok_or(ZipError::InvalidArchive("truncated"))
}

impl<R: Read + Seek> ZipArchive<R> {
    pub fn new(mut reader: R) -> ZipResult<Self> {
        let mut data = Vec::new();
        reader.seek(SeekFrom::Start(0))?;
        reader.read_to_end(&mut data)?;
        if data.len() < 22 {
            return Err(ZipError::InvalidArchive("Invalid zip header"));
        }
        let mut pos = data.len() - 22;
        let eocd = loop {
            if u32_at(&data, pos)? == 0x0605_4b50 {
                break pos;
            }
            if pos == 0 || data.len() - pos > 22 + 0xFFFF {
                return Err(ZipError::InvalidArchive(
                    "Could not find central directory end",
                ));
            }
            pos -= 1;
        };
        let count = u16_at(&data, eocd + 10)? as usize;
        let cd_offset = u32_at(&data, eocd + 16)? as usize;
        let mut entries = HashMap::new();
        let mut names = Vec::new();
        let mut p = cd_offset;
        for _ in 0..count {
            if u32_at(&data, p)? != 0x0201_4b50 {
                return Err(ZipError::InvalidArchive("Invalid Central Directory header"));
            }
            let flags = u16_at(&data, p + 8)?;
            if flags & 1 != 0 {
                return Err(ZipError::UnsupportedArchive("encrypted"));
            }
            let method = u16_at(&data, p + 10)?;
            let crc = u32_at(&data, p + 16)?;
            let comp_size = u32_at(&data, p + 20)? as usize;
            let size = u32_at(&data, p + 24)? as usize;
            let nlen = u16_at(&data, p + 28)? as usize;
            let elen = u16_at(&data, p + 30)? as usize;
            let clen = u16_at(&data, p + 32)? as usize;
            let offset = u32_at(&data, p + 42)? as usize;
            let name_bytes = data
                .get(p + 46..p + 46 + nlen)
                .ok_or(ZipError::InvalidArchive("truncated name"))?;
            let name = String::from_utf8_lossy(name_bytes).into_owned();
            names.push(name.clone());
            entries.insert(
                name,
                ReadEntry {
                    method,
                    crc,
                    comp_size,
                    size,
                    offset,
                },
            );
            p += 46 + nlen + elen + clen;
        }
        Ok(ZipArchive {
            _reader: reader,
            data,
            entries,
            names,
        })
    }

    pub fn len(&self) -> usize {
        self.names.len()
    }

    pub fn is_empty(&self) -> bool {
        self.names.is_empty()
    }

    pub fn file_names(&self) -> impl Iterator<Item = &str> {
        self.names.iter().map(|s| s.as_str())
    }

    pub fn by_name<'a>(&'a mut self, name: &str) -> ZipResult<ZipFile<'a>> {
        let e = self.entries.get(name).ok_or(ZipError::FileNotFound)?;
        let d = &self.data;
        if u32_at(d, e.offset)? != 0x0403_4b50 {
            return Err(ZipError::InvalidArchive("Invalid local file header"));
        }
        let nlen = u16_at(d, e.offset + 26)? as usize;
        let elen = u16_at(d, e.offset + 28)? as usize;
        let start = e.offset + 30 + nlen + elen;
        let raw = d
            .get(start..start + e.comp_size)
            .ok_or(ZipError::InvalidArchive("truncated entry"))?;
        let out = match e.method {
            0 => raw.to_vec(),
            8 => miniz_oxide::inflate::decompress_to_vec(raw)
                .map_err(|_| ZipError::InvalidArchive("inflate failed"))?,
            _ => return Err(ZipError::UnsupportedArchive("compression method")),
        };
        if out.len() != e.size || crc32fast::hash(&out) != e.crc {
            return Err(ZipError::InvalidArchive("Invalid checksum"));
        }
        Ok(ZipFile {
            cursor: Cursor::new(out),
            name: name.to_string(),
            _marker: std::marker::PhantomData,
        })
    }
}
