use crate::Host;
use serde_json::Value;

pub fn dispatch(_host: &mut Host, name: &str, _op: &Value) -> Result<Option<Value>, String> {
    Err(format!("unknown core op {name}"))
}
