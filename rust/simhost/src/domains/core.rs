use crate::{bytes, reg_by_name, s, u, CoreSlot, FlatBus, Host};
use sc62015_core::llama::eval::LlamaExecutor;
use sc62015_core::llama::opcodes::RegName;
use sc62015_core::llama::state::{LlamaState, PowerState};
use serde_json::{json, Value};

/// Core level (C06/C07): LlamaExecutor over a flat little-endian bus.
///   ["c.new", slot]
///   ["c.load", slot, addr, [bytes]]
///   ["c.setreg", slot, name, value]          (architectural registers and TEMPn)
///   ["c.hidden", slot, {temps:[..], call_sub_level:n, pages:[..], frames:[[dest,bits]..], perf:n, call_depth:n}]
///   ["c.impose", slot, {regs:{..}, mem:[[addr,[bytes]]..], power:0|1|2}]   architectural state only
///   ["c.run", slot, n, lo, hi] -> [[pc, opcode, len|-1, BA,I,X,Y,U,S,PC,FC,FZ,power,[[addr,val]..]] ...]
pub fn dispatch(host: &mut Host, name: &str, op: &Value) -> Result<Option<Value>, String> {
    let slot = u(op, 1)?;
    match name {
        "c.new" => {
            host.cores.insert(
                slot,
                CoreSlot {
                    state: LlamaState::new(),
                    bus: FlatBus::new(),
                    exec: LlamaExecutor::new(),
                },
            );
            Ok(None)
        }
        "c.load" => {
            let addr = u(op, 2)? as u32;
            let data = bytes(op, 3)?;
            let c = host.cores.get_mut(&slot).ok_or("no core")?;
            let log = c.bus.log_writes;
            c.bus.log_writes = false;
            for (i, b) in data.iter().enumerate() {
                c.bus.wr(addr.wrapping_add(i as u32), *b);
            }
            c.bus.log_writes = log;
            Ok(None)
        }
        "c.setreg" => {
            let nm = s(op, 2)?.to_string();
            let v = u(op, 3)? as u32;
            let c = host.cores.get_mut(&slot).ok_or("no core")?;
            let reg = reg_by_name(&nm).ok_or_else(|| format!("bad reg {nm}"))?;
            c.state.set_reg(reg, v);
            Ok(None)
        }
        "c.hidden" => {
            let cfg = op.get(2).cloned().unwrap_or(json!({}));
            let c = host.cores.get_mut(&slot).ok_or("no core")?;
            if let Some(t) = cfg.get("temps").and_then(|x| x.as_array()) {
                for (i, v) in t.iter().enumerate().take(14) {
                    if let Some(v) = v.as_u64() {
                        c.state.set_reg(RegName::Temp(i as u8), v as u32);
                    }
                }
            }
            if let Some(v) = cfg.get("call_sub_level").and_then(|x| x.as_u64()) {
                c.state.set_call_sub_level(v as u32);
            }
            if let Some(v) = cfg.get("call_depth").and_then(|x| x.as_u64()) {
                c.state.set_call_depth(v as u32);
            }
            if let Some(p) = cfg.get("pages").and_then(|x| x.as_array()) {
                for v in p {
                    if let Some(v) = v.as_u64() {
                        c.state.push_call_page(v as u32);
                    }
                }
            }
            if let Some(p) = cfg.get("frames").and_then(|x| x.as_array()) {
                for f in p {
                    let dest = f.get(0).and_then(|x| x.as_u64()).unwrap_or(0) as u32;
                    let bits = f.get(1).and_then(|x| x.as_u64()).unwrap_or(16) as u8;
                    c.state.push_call_frame(dest, bits);
                }
            }
            if let Some(v) = cfg.get("perf").and_then(|x| x.as_u64()) {
                sc62015_core::llama::eval::set_perf_instr_counter(v);
            }
            Ok(None)
        }
        "c.impose" => {
            let cfg = op.get(2).cloned().unwrap_or(json!({}));
            let c = host.cores.get_mut(&slot).ok_or("no core")?;
            if let Some(regs) = cfg.get("regs").and_then(|x| x.as_object()) {
                for (k, v) in regs {
                    if let (Some(reg), Some(v)) = (reg_by_name(k), v.as_u64()) {
                        c.state.set_reg(reg, v as u32);
                    }
                }
            }
            if let Some(mem) = cfg.get("mem").and_then(|x| x.as_array()) {
                let log = c.bus.log_writes;
                c.bus.log_writes = false;
                for m in mem {
                    let addr = u(m, 0)? as u32;
                    let data = bytes(m, 1)?;
                    for (i, b) in data.iter().enumerate() {
                        c.bus.wr(addr.wrapping_add(i as u32), *b);
                    }
                }
                c.bus.log_writes = log;
            }
            if let Some(p) = cfg.get("power").and_then(|x| x.as_u64()) {
                c.state.set_power_state(match p {
                    1 => PowerState::Halted,
                    2 => PowerState::Off,
                    _ => PowerState::Running,
                });
            }
            Ok(None)
        }
        "c.run" => {
            let n = u(op, 2)? as usize;
            let lo = u(op, 3)? as u32;
            let hi = u(op, 4)? as u32;
            let c = host.cores.get_mut(&slot).ok_or("no core")?;
            let mut out: Vec<Value> = Vec::with_capacity(n);
            for _ in 0..n {
                let pc = c.state.get_reg(RegName::PC) & 0xFFFFF;
                if pc < lo || pc > hi {
                    break;
                }
                if c.state.power_state() != PowerState::Running {
                    break;
                }
                let opcode = c.bus.rd(pc);
                c.bus.writes.clear();
                let res = std::panic::catch_unwind(std::panic::AssertUnwindSafe(|| {
                    c.exec.execute(opcode, &mut c.state, &mut c.bus)
                }));
                let (len, err): (i64, Value) = match res {
                    Ok(Ok(l)) => (l as i64, Value::Null),
                    Ok(Err(e)) => (-1, json!(e.to_string())),
                    Err(_) => (-2, json!("panic")),
                };
                let writes: Vec<Value> = c.bus.writes.iter().map(|(a, v)| json!([a, v])).collect();
                let st = &c.state;
                out.push(json!([
                    pc, opcode, len,
                    st.get_reg(RegName::BA), st.get_reg(RegName::I), st.get_reg(RegName::X), st.get_reg(RegName::Y),
                    st.get_reg(RegName::U), st.get_reg(RegName::S), st.get_reg(RegName::PC) & 0xFFFFF,
                    st.get_reg(RegName::FC), st.get_reg(RegName::FZ), crate::power_code(st), writes, err
                ]));
                if len < 0 {
                    break;
                }
            }
            Ok(Some(Value::Array(out)))
        }
        _ => Err(format!("unknown core op {name}")),
    }
}
