use crate::{b, u, Host};
use sc62015_core::memory::MemoryImage;
use sc62015_core::timer::TimerContext;
use sc62015_core::{KeyboardMatrix, LcdController};
use serde_json::{json, Value};

pub fn dispatch(host: &mut Host, name: &str, op: &Value) -> Result<Option<Value>, String> {
    if let Some(rest) = name.strip_prefix("t.") {
        return timer(host, rest, op);
    }
    if let Some(rest) = name.strip_prefix("k.") {
        return keyboard(host, rest, op);
    }
    if let Some(rest) = name.strip_prefix("l.") {
        return lcd(host, rest, op);
    }
    if let Some(rest) = name.strip_prefix("mem.") {
        return mem(host, rest, op);
    }
    if let Some(rest) = name.strip_prefix("r.") {
        return regs(host, rest, op);
    }
    Err(format!("unknown component op {name}"))
}

fn mem_cfg(m: &mut MemoryImage, step: &Value) -> Result<(), String> {
    let kind = step.get(1).and_then(|x| x.as_str()).unwrap_or("");
    match kind {
        "mirror" => m.set_internal_ram_mirror(b(step, 2)?),
        "readonly" => {
            let mut v = Vec::new();
            if let Some(arr) = step.get(2).and_then(|x| x.as_array()) {
                for r in arr {
                    v.push((u(r, 0)? as u32, u(r, 1)? as u32));
                }
            }
            m.set_readonly_ranges(v);
        }
        "pce500_map" => sc62015_core::pce500::configure_pce500_memory_map(m),
        "ram" => m.add_ram_overlay(u(step, 2)? as u32, u(step, 3)? as usize, crate::s(step, 4)?),
        "rom" => {
            let data = crate::bytes(step, 3)?;
            m.add_rom_overlay(u(step, 2)? as u32, &data, crate::s(step, 4)?);
        }
        "rm" => m.remove_overlay(crate::s(step, 2)?),
        "card" => {
            let size = u(step, 2)? as usize;
            let fill = u(step, 3)? as u8;
            let data = vec![fill; size];
            m.set_memory_card_slot_present(true);
            m.load_memory_card(&data).map_err(|e| format!("{e}"))?;
        }
        "nocard" => m.set_memory_card_slot_present(false),
        "romimage" => {
            // deterministic ROM content shared with the Python side: byte(a) = ((a*2654435761 + seed*40503) >> 7) & 0xFF
            let seed = u(step, 2)?;
            let data: Vec<u8> = (0xC0000u64..0x100000u64)
                .map(|a| (((a * 2654435761u64 + seed * 40503u64) >> 7) & 0xFF) as u8)
                .collect();
            m.write_external_slice(0xC0000, &data);
        }
        "image" => {
            let data = crate::bytes(step, 3)?;
            m.write_external_slice(u(step, 2)? as usize, &data);
        }
        other => return Err(format!("bad mem cfg {other}")),
    }
    Ok(())
}

/// MemoryImage component level (C11): ["mem.new", slot], ["mem.script", slot, [steps]]
///   ["cfg", kind, ...] | ["ld", addr, bits] | ["st", addr, bits, value]
fn mem(host: &mut Host, name: &str, op: &Value) -> Result<Option<Value>, String> {
    let slot = u(op, 1)?;
    match name {
        "new" => {
            host.memrts.remove(&slot);
            host.mems.insert(slot, MemoryImage::new());
            Ok(None)
        }
        "new_rt" => {
            // ["mem.new_rt", slot, "pce500"|"jp", seed, image_len]: the memory of a runtime configured the way a front
            // end does it, DeviceModel::configure_runtime(rt, rom).  The byte of the image that the loaders place at
            // address a is ((a*2654435761 + seed*40503) >> 7) & 0xFF, so the reference model needs no copy of it.
            let model = match crate::s(op, 2)? {
                "jp" => sc62015_core::DeviceModel::PcE500Jp,
                _ => sc62015_core::DeviceModel::PcE500,
            };
            let seed = u(op, 3)?;
            let len = u(op, 4)? as usize;
            let shift = if len >= 0x100000 { 0u64 } else { 0xC0000u64.wrapping_sub(len.saturating_sub(0x40000) as u64) };
            let rom: Vec<u8> = (0..len as u64)
                .map(|i| {
                    let a = i.wrapping_add(shift);
                    (((a.wrapping_mul(2654435761u64).wrapping_add(seed * 40503u64)) >> 7) & 0xFF) as u8
                })
                .collect();
            let mut rt = Box::new(sc62015_core::CoreRuntime::new());
            model.configure_runtime(&mut rt, &rom).map_err(|e| format!("{e}"))?;
            host.mems.remove(&slot);
            host.memrts.insert(slot, rt);
            Ok(None)
        }
        "script" => {
            let m = match host.memrts.get_mut(&slot) {
                Some(rt) => &mut rt.memory,
                None => host.mems.get_mut(&slot).ok_or_else(|| format!("no mem {slot}"))?,
            };
            let script = op.get(2).and_then(|x| x.as_array()).ok_or_else(|| "steps".to_string())?;
            let mut out: Vec<Value> = Vec::with_capacity(script.len());
            for step in script {
                let kind = step.get(0).and_then(|x| x.as_str()).unwrap_or("");
                match kind {
                    "cfg" => {
                        mem_cfg(m, step)?;
                        out.push(Value::Null);
                    }
                    "ld" => {
                        let v = m.load(u(step, 1)? as u32, u(step, 2)? as u8);
                        out.push(match v {
                            Some(x) => json!(x),
                            None => Value::Null,
                        });
                    }
                    "st" => {
                        let r = m.store(u(step, 1)? as u32, u(step, 2)? as u8, u(step, 3)? as u32);
                        out.push(json!(r.is_some()));
                    }
                    other => return Err(format!("bad mem step {other}")),
                }
            }
            Ok(Some(Value::Array(out)))
        }
        _ => Err(format!("unknown mem op mem.{name}")),
    }
}

/// LlamaState register file (C08): ["r.script", [steps]]
///   ["set", name, value] | ["get", name] | ["roundtrip"] (collect -> pack -> unpack -> apply to a fresh state)
///   | ["apply"] (collect -> apply to fresh, keeping TEMPs)
fn regs(_host: &mut Host, name: &str, op: &Value) -> Result<Option<Value>, String> {
    use sc62015_core::llama::state::LlamaState;
    use sc62015_core::{apply_registers, collect_registers, pack_registers, unpack_registers};
    match name {
        "script" => {
            // ["r.script", steps, mode?]: mode "runtime" drives the string-keyed API of a CoreRuntime
            // (set_reg / get_reg by name) instead of the LlamaState directly; TEMPs always go through the state
            let mode = op.get(2).and_then(|x| x.as_str()).unwrap_or("state").to_string();
            let runtime = mode == "runtime" || mode == "bundle";
            // mode "bundle": a restart goes through the real bundle on disk (CoreRuntime::save_snapshot -> a fresh
            // runtime's load_snapshot); op[3] is the scratch path
            let bundle_path = if mode == "bundle" { op.get(3).and_then(|x| x.as_str()).map(|x| x.to_string()) } else { None };
            let mut rt = Box::new(sc62015_core::CoreRuntime::new());
            rt.state = LlamaState::new();
            let script = op.get(1).and_then(|x| x.as_array()).ok_or_else(|| "steps".to_string())?;
            let mut out: Vec<Value> = Vec::with_capacity(script.len());
            for step in script {
                let kind = step.get(0).and_then(|x| x.as_str()).unwrap_or("");
                match kind {
                    "set" => {
                        let nm = crate::s(step, 1)?;
                        let reg = crate::reg_by_name(nm).ok_or_else(|| format!("bad reg {nm}"))?;
                        if runtime && !nm.starts_with("TEMP") {
                            rt.set_reg(nm, u(step, 2)? as u32);
                        } else {
                            rt.state.set_reg(reg, u(step, 2)? as u32);
                        }
                        out.push(Value::Null);
                    }
                    "get" => {
                        let nm = crate::s(step, 1)?;
                        let reg = crate::reg_by_name(nm).ok_or_else(|| format!("bad reg {nm}"))?;
                        if runtime && !nm.starts_with("TEMP") {
                            out.push(json!(rt.get_reg(nm)));
                        } else {
                            out.push(json!(rt.state.get_reg(reg)));
                        }
                    }
                    "peek" => {
                        // a snapshot taken and thrown away (what saving a bundle does to a machine that runs on)
                        let _ = collect_registers(&rt.state);
                        out.push(Value::Null);
                    }
                    "roundtrip" => {
                        let regs = collect_registers(&rt.state);
                        let blob = pack_registers(&regs);
                        let mut back = unpack_registers(&blob).map_err(|e| format!("{e}"))?;
                        for (k, v) in regs.iter() {
                            if k.starts_with("TEMP") {
                                back.insert(k.clone(), *v);
                            }
                        }
                        let mut fresh = Box::new(sc62015_core::CoreRuntime::new());
                        fresh.state = LlamaState::new();
                        if let Some(path) = bundle_path.as_ref() {
                            let pth = std::path::Path::new(path);
                            rt.save_snapshot(pth).map_err(|e| format!("save_snapshot: {e}"))?;
                            let res = fresh.load_snapshot(pth);
                            let _ = std::fs::remove_file(pth);
                            res.map_err(|e| format!("load_snapshot: {e}"))?;
                        } else {
                            apply_registers(&mut fresh.state, &back);
                        }
                        rt = fresh;
                        out.push(json!(blob));
                    }
                    "apply" => {
                        let regs = collect_registers(&rt.state);
                        let mut fresh = Box::new(sc62015_core::CoreRuntime::new());
                        fresh.state = LlamaState::new();
                        if let Some(path) = bundle_path.as_ref() {
                            let pth = std::path::Path::new(path);
                            rt.save_snapshot(pth).map_err(|e| format!("save_snapshot: {e}"))?;
                            let res = fresh.load_snapshot(pth);
                            let _ = std::fs::remove_file(pth);
                            res.map_err(|e| format!("load_snapshot: {e}"))?;
                        } else {
                            apply_registers(&mut fresh.state, &regs);
                        }
                        rt = fresh;
                        out.push(Value::Null);
                    }
                    other => return Err(format!("bad reg step {other}")),
                }
            }
            Ok(Some(Value::Array(out)))
        }
        _ => Err(format!("unknown reg op r.{name}")),
    }
}

fn lcd_regs(lcd: &LcdController) -> Value {
    let (meta, vram) = lcd.export_snapshot();
    let mut chips: Vec<Value> = Vec::new();
    if let Some(arr) = meta.get("chips").and_then(|v| v.as_array()) {
        for (i, c) in arr.iter().enumerate() {
            let base = i * 512;
            let sum = crc32fast::hash(&vram[base..base + 512]);
            chips.push(json!([
                c.get("on"), c.get("start_line"), c.get("page"), c.get("y_address"), c.get("busy"), sum
            ]));
        }
    }
    Value::Array(chips)
}

fn pixels(lcd: &LcdController) -> Vec<Vec<u8>> {
    let buf = lcd.display_buffer();
    buf.iter().map(|row| row.to_vec()).collect()
}

/// LcdController component level (C15).
fn lcd(host: &mut Host, name: &str, op: &Value) -> Result<Option<Value>, String> {
    let slot = u(op, 1)?;
    match name {
        "new" => {
            host.lcds.insert(slot, LcdController::new());
            Ok(None)
        }
        "script" => {
            // ["l.script", slot, [[0,addr,val]|[1,addr]...], want_pixels]
            let lcd = host.lcds.get_mut(&slot).ok_or_else(|| format!("no lcd {slot}"))?;
            let script = op.get(2).and_then(|x| x.as_array()).ok_or_else(|| "ops".to_string())?;
            let want_pixels = op.get(3).and_then(|x| x.as_bool()).unwrap_or(false);
            let mut out: Vec<Value> = Vec::new();
            for step in script {
                let kind = u(step, 0)?;
                let addr = u(step, 1)? as u32;
                let mut ret = Value::Null;
                let before = if want_pixels && kind == 0 { Some(pixels(lcd)) } else { None };
                if kind == 3 {
                    lcd.reset();       // the controllers' reset line (power-on state)
                } else if kind == 4 {
                    // the host fetches a frame
                    let px: Vec<String> = pixels(lcd)
                        .iter()
                        .map(|row| row.iter().map(|p| if *p != 0 { '1' } else { '0' }).collect())
                        .collect();
                    ret = json!(px);
                } else if kind == 0 {
                    lcd.write(addr, u(step, 2)? as u8);
                } else {
                    ret = match lcd.read(addr) {
                        Some(v) => json!(v),
                        None => Value::Null,
                    };
                }
                let mut changed = Value::Null;
                if let Some(b) = before {
                    let a = pixels(lcd);
                    let mut diff: Vec<Value> = Vec::new();
                    for (r, (ra, rb)) in a.iter().zip(b.iter()).enumerate() {
                        for (c, (pa, pb)) in ra.iter().zip(rb.iter()).enumerate() {
                            if pa != pb {
                                diff.push(json!([r, c]));
                            }
                        }
                    }
                    changed = Value::Array(diff);
                }
                out.push(json!([ret, lcd_regs(lcd), changed, lcd.handles(addr)]));
            }
            let (meta, vram) = lcd.export_snapshot();
            let px: Vec<String> = pixels(lcd)
                .iter()
                .map(|row| row.iter().map(|p| if *p != 0 { '1' } else { '0' }).collect())
                .collect();
            Ok(Some(json!({"trace": out, "vram": vram, "meta": meta, "pixels": px})))
        }
        "flip" => {
            // ["l.flip", slot, [[chip,page,col,bit]...]] -> for each bit the display pixels that change
            let bits = op.get(2).and_then(|x| x.as_array()).ok_or_else(|| "bits".to_string())?;
            let mut out: Vec<Value> = Vec::new();
            for b in bits {
                let chip = u(b, 0)? as u32;
                let page = u(b, 1)? as u8;
                let col = u(b, 2)? as u8;
                let bit = u(b, 3)? as u8;
                let mut lcd = LcdController::new();
                lcd.write(0x2000, 0x3F); // both chips on
                let base = pixels(&lcd);
                let cs = if chip == 0 { 0x8 } else { 0x4 }; // left = CS 10, right = CS 01
                lcd.write(0x2000 | cs, 0xB8 | page);
                lcd.write(0x2000 | cs, 0x40 | col);
                lcd.write(0x2000 | cs | 2, 1u8 << bit);
                let after = pixels(&lcd);
                let mut diff: Vec<Value> = Vec::new();
                for (r, (ra, rb)) in after.iter().zip(base.iter()).enumerate() {
                    for (c, (pa, pb)) in ra.iter().zip(rb.iter()).enumerate() {
                        if pa != pb {
                            diff.push(json!([r, c]));
                        }
                    }
                }
                out.push(Value::Array(diff));
            }
            Ok(Some(Value::Array(out)))
        }
        _ => Err(format!("unknown lcd op l.{name}")),
    }
}

fn kb_state(kb: &KeyboardMatrix, mem: &MemoryImage, codes: &[u8]) -> Value {
    let snap = kb.snapshot_state();
    let mut keys = Vec::new();
    for code in codes {
        let col = (code >> 3) as usize;
        let row = (code & 7) as usize;
        let mut entry = json!(null);
        // key_states is keyed by name; find by recomputing the name through the public helper
        for (name, st) in snap.key_states.iter() {
            if KeyboardMatrix::matrix_code_for_key_name(name) == Some(*code) {
                entry = json!([st.pressed, st.debounced, st.press_ticks, st.release_ticks, st.repeat_ticks]);
                break;
            }
        }
        let _ = (col, row);
        keys.push(entry);
    }
    json!({
        "fifo": kb.fifo_snapshot(),
        "isr": mem.read_internal_byte_silent(0xFC).unwrap_or(0),
        "kil_latch": snap.kil_latch,
        "keys": keys,
    })
}

/// KeyboardMatrix component level (C14): ["k.new", slot, cfg], ["k.script", slot, [codes], kb_irq, [ops]]
fn keyboard(host: &mut Host, name: &str, op: &Value) -> Result<Option<Value>, String> {
    let slot = u(op, 1)?;
    match name {
        "new" => {
            let mut kb = KeyboardMatrix::new();
            let mem = MemoryImage::new();
            let cfg = op.get(2).cloned().unwrap_or(json!({}));
            let mut snap = kb.snapshot_state();
            if let Some(v) = cfg.get("press").and_then(|x| x.as_u64()) {
                snap.press_threshold = v as u8;
            }
            if let Some(v) = cfg.get("release").and_then(|x| x.as_u64()) {
                snap.release_threshold = v as u8;
            }
            if let Some(v) = cfg.get("repeat_delay").and_then(|x| x.as_u64()) {
                snap.repeat_delay = v as u8;
            }
            if let Some(v) = cfg.get("repeat_interval").and_then(|x| x.as_u64()) {
                snap.repeat_interval = v as u8;
            }
            if let Some(v) = cfg.get("active_high").and_then(|x| x.as_bool()) {
                snap.columns_active_high = v;
            }
            kb.load_snapshot_state(&snap);
            if cfg.get("raw_kil").and_then(|x| x.as_bool()) == Some(true) {
                kb.set_raw_kil(true);       // host-side option (IQ-7000 profile): KIL from physical key state
            }
            host.keyboards.insert(slot, (kb, mem));
            Ok(None)
        }
        "script" => {
            let codes: Vec<u8> = op
                .get(2)
                .and_then(|x| x.as_array())
                .map(|a| a.iter().filter_map(|v| v.as_u64()).map(|v| v as u8).collect())
                .unwrap_or_default();
            let mut kb_irq = b(op, 3)?;
            let raw_kil = op.get(5).and_then(|x| x.as_bool()).unwrap_or(false);
            let script = op
                .get(4)
                .and_then(|x| x.as_array())
                .ok_or_else(|| "k.script needs ops".to_string())?;
            let (kb, mem) = host
                .keyboards
                .get_mut(&slot)
                .ok_or_else(|| format!("no keyboard {slot}"))?;
            let mut out: Vec<Value> = Vec::new();
            for step in script {
                let kind = step.get(0).and_then(|x| x.as_str()).unwrap_or("");
                let mut ret = Value::Null;
                match kind {
                    "press" => kb.press_matrix_code(u(step, 1)? as u8, mem),
                    "release" => kb.release_matrix_code(u(step, 1)? as u8, mem),
                    "kol" => {
                        kb.handle_write(0xF0, u(step, 1)? as u8, mem);
                    }
                    "koh" => {
                        kb.handle_write(0xF1, u(step, 1)? as u8, mem);
                    }
                    "tick" => {
                        // what CoreRuntime does on a scan: scan_tick(count_irq=true), then mirror to ISR
                        let events = kb.scan_tick(mem, true);
                        if events > 0 || (kb_irq && kb.fifo_len() > 0) {
                            kb.write_fifo_to_memory(mem, kb_irq);
                        }
                        ret = json!(events);
                    }
                    "read" => {
                        ret = json!(kb.handle_read(0xF2, mem));
                    }
                    "inject" => {
                        let n = kb.inject_matrix_event(u(step, 1)? as u8, b(step, 2)?, mem, kb_irq);
                        ret = json!(n);
                    }
                    "consume" => kb.consume_pending_events(),
                    "restart" => {
                        // snapshot -> JSON -> a fresh matrix (the path a saved machine takes)
                        let snap = kb.snapshot_state();
                        let text = serde_json::to_string(&snap).map_err(|e| format!("{e}"))?;
                        let back = serde_json::from_str(&text).map_err(|e| format!("{e}"))?;
                        if step.get(1).and_then(|x| x.as_str()) == Some("used") {
                            // the same matrix lives on (other strobes, a few scans) and then takes the saved state
                            // back in place; the memory cells a bundle restores with it are put back as well
                            let cells: Vec<u8> = [0xF0u32, 0xF1, 0xF2, 0xFC]
                                .iter()
                                .map(|o| mem.read_internal_byte_silent(*o).unwrap_or(0))
                                .collect();
                            kb.handle_write(0xF0, u(step, 2)? as u8, mem);
                            kb.handle_write(0xF1, u(step, 3)? as u8, mem);
                            for _ in 0..u(step, 4)? {
                                let _ = kb.scan_tick(mem, true);
                            }
                            kb.load_snapshot_state(&back);
                            for (o, v) in [0xF0u32, 0xF1, 0xF2, 0xFC].iter().zip(cells.iter()) {
                                mem.write_internal_byte(*o, *v);
                            }
                        } else {
                            let mut fresh = KeyboardMatrix::new();
                            fresh.load_snapshot_state(&back);
                            fresh.set_raw_kil(raw_kil);      // configuration is supplied again, not restored
                            *kb = fresh;
                        }
                    }
                    "clrisr" => mem.write_internal_byte(0xFC, 0),
                    "kbirq" => kb_irq = b(step, 1)?,
                    other => return Err(format!("bad keyboard step {other}")),
                }
                out.push(json!([ret, kb_state(kb, mem, &codes)]));
            }
            Ok(Some(Value::Array(out)))
        }
        _ => Err(format!("unknown keyboard op k.{name}")),
    }
}

/// TimerContext component level (C13).  One request op carries a whole tick script so
/// that a 5 000-tick run costs one JSON round trip.
fn timer(host: &mut Host, name: &str, op: &Value) -> Result<Option<Value>, String> {
    let slot = u(op, 1)?;
    match name {
        "new" => {
            let enabled = b(op, 2)?;
            let mti = u(op, 3)? as i64;
            let sti = u(op, 4)? as i64;
            let ctx = TimerContext::new(
                enabled,
                mti.min(i32::MAX as i64) as i32,
                sti.min(i32::MAX as i64) as i32,
            );
            host.timers.insert(slot, (ctx, MemoryImage::new()));
            Ok(None)
        }
        "script" => {
            // ["t.script", slot, [[kind, arg...], ...]]
            //   ["tick", c]            -> [mti, sti, next_mti, next_sti, isr]
            //   ["ticks", c0, n]       -> n unit ticks c0..c0+n-1, returns list of fired [c, mti, sti]
            //                              plus final [next_mti,next_sti]; ISR cleared before each tick
            //   ["reset", c]
            //   ["enable", bool]
            //   ["periods", mti, sti]  (fields only, no reset)
            //   ["restore"]            snapshot_info -> fresh TimerContext::new(false,0,0).apply_snapshot_info
            //   ["clrisr"]
            let (ctx, mem) = host
                .timers
                .get_mut(&slot)
                .ok_or_else(|| format!("no timer {slot}"))?;
            let script = op
                .get(2)
                .and_then(|x| x.as_array())
                .ok_or_else(|| "t.script needs a list".to_string())?;
            let mut out: Vec<Value> = Vec::new();
            for step in script {
                let kind = step.get(0).and_then(|x| x.as_str()).unwrap_or("");
                match kind {
                    "tick" => {
                        let c = u(step, 1)?;
                        let before = mem.read_internal_byte_silent(0xFC).unwrap_or(0);
                        let (m, s2) = ctx.tick_timers(mem, c, None);
                        let isr = mem.read_internal_byte_silent(0xFC).unwrap_or(0);
                        out.push(json!(["tick", c, m, s2, ctx.next_mti, ctx.next_sti, before, isr]));
                    }
                    "ticks" => {
                        let c0 = u(step, 1)?;
                        let n = u(step, 2)?;
                        let mut fired: Vec<Value> = Vec::new();
                        let mut bad_target: Option<u64> = None;
                        let mut bad_isr: Option<u64> = None;
                        for c in c0..c0.saturating_add(n) {
                            mem.write_internal_byte(0xFC, 0);
                            let (m, s2) = ctx.tick_timers(mem, c, None);
                            if m || s2 {
                                let isr = mem.read_internal_byte_silent(0xFC).unwrap_or(0);
                                fired.push(json!([c, m, s2, isr]));
                                let want = (m as u8) | ((s2 as u8) << 1);
                                if isr & 3 != want && bad_isr.is_none() {
                                    bad_isr = Some(c);
                                }
                            }
                            if ctx.enabled && bad_target.is_none() {
                                if (ctx.mti_period > 0 && ctx.next_mti <= c)
                                    || (ctx.sti_period > 0 && ctx.next_sti <= c)
                                {
                                    bad_target = Some(c);
                                }
                            }
                        }
                        out.push(json!(["ticks", c0, n, fired, ctx.next_mti, ctx.next_sti, bad_target, bad_isr]));
                    }
                    "reset" => {
                        let c = u(step, 1)?;
                        ctx.reset(c);
                        out.push(json!(["reset", c, ctx.next_mti, ctx.next_sti]));
                    }
                    "enable" => {
                        ctx.enabled = b(step, 1)?;
                    }
                    "periods" => {
                        ctx.mti_period = u(step, 1)?;
                        ctx.sti_period = u(step, 2)?;
                    }
                    "restore" => {
                        let (ti, ii) = ctx.snapshot_info();
                        let cyc = step.get(1).and_then(|x| x.as_u64()).unwrap_or(0);
                        let mut fresh = TimerContext::new(false, 0, 0);
                        fresh.apply_snapshot_info(&ti, &ii, cyc);
                        *ctx = fresh;
                        out.push(json!(["restore", ctx.enabled, ctx.mti_period, ctx.sti_period, ctx.next_mti, ctx.next_sti]));
                    }
                    "clrisr" => {
                        mem.write_internal_byte(0xFC, 0);
                    }
                    "state" => {
                        out.push(json!(["state", ctx.enabled, ctx.mti_period, ctx.sti_period, ctx.next_mti, ctx.next_sti]));
                    }
                    other => return Err(format!("bad timer step {other}")),
                }
            }
            Ok(Some(Value::Array(out)))
        }
        _ => Err(format!("unknown timer op t.{name}")),
    }
}
