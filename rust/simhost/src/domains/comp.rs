use crate::{b, u, Host};
use sc62015_core::memory::MemoryImage;
use sc62015_core::timer::TimerContext;
use serde_json::{json, Value};

pub fn dispatch(host: &mut Host, name: &str, op: &Value) -> Result<Option<Value>, String> {
    if let Some(rest) = name.strip_prefix("t.") {
        return timer(host, rest, op);
    }
    Err(format!("unknown component op {name}"))
}

/// TimerContext component level (C13).  One request op carries a whole tick script so
/// that a 5 000-tick run costs one JSON round trip.
fn timer(host: &mut Host, name: &str, op: &Value) -> Result<Option<Value>, String> {
    let slot = u(op, 1)?;
    match name {
        "new" => {
            let enabled = b(op, 2)?;
            let mti = u(op, 3)? as i64;
            let sti = u(op, 4)? as i64;
            let ctx = TimerContext::new(
                enabled,
                mti.min(i32::MAX as i64) as i32,
                sti.min(i32::MAX as i64) as i32,
            );
            host.timers.insert(slot, (ctx, MemoryImage::new()));
            Ok(None)
        }
        "script" => {
            // ["t.script", slot, [[kind, arg...], ...]]
            //   ["tick", c]            -> [mti, sti, next_mti, next_sti, isr]
            //   ["ticks", c0, n]       -> n unit ticks c0..c0+n-1, returns list of fired [c, mti, sti]
            //                              plus final [next_mti,next_sti]; ISR cleared before each tick
            //   ["reset", c]
            //   ["enable", bool]
            //   ["periods", mti, sti]  (fields only, no reset)
            //   ["restore"]            snapshot_info -> fresh TimerContext::new(false,0,0).apply_snapshot_info
            //   ["clrisr"]
            let (ctx, mem) = host
                .timers
                .get_mut(&slot)
                .ok_or_else(|| format!("no timer {slot}"))?;
            let script = op
                .get(2)
                .and_then(|x| x.as_array())
                .ok_or_else(|| "t.script needs a list".to_string())?;
            let mut out: Vec<Value> = Vec::new();
            for step in script {
                let kind = step.get(0).and_then(|x| x.as_str()).unwrap_or("");
                match kind {
                    "tick" => {
                        let c = u(step, 1)?;
                        let before = mem.read_internal_byte_silent(0xFC).unwrap_or(0);
                        let (m, s2) = ctx.tick_timers(mem, c, None);
                        let isr = mem.read_internal_byte_silent(0xFC).unwrap_or(0);
                        out.push(json!(["tick", c, m, s2, ctx.next_mti, ctx.next_sti, before, isr]));
                    }
                    "ticks" => {
                        let c0 = u(step, 1)?;
                        let n = u(step, 2)?;
                        let mut fired: Vec<Value> = Vec::new();
                        let mut bad_target: Option<u64> = None;
                        let mut bad_isr: Option<u64> = None;
                        for c in c0..c0.saturating_add(n) {
                            mem.write_internal_byte(0xFC, 0);
                            let (m, s2) = ctx.tick_timers(mem, c, None);
                            if m || s2 {
                                let isr = mem.read_internal_byte_silent(0xFC).unwrap_or(0);
                                fired.push(json!([c, m, s2, isr]));
                                let want = (m as u8) | ((s2 as u8) << 1);
                                if isr & 3 != want && bad_isr.is_none() {
                                    bad_isr = Some(c);
                                }
                            }
                            if ctx.enabled && bad_target.is_none() {
                                if (ctx.mti_period > 0 && ctx.next_mti <= c)
                                    || (ctx.sti_period > 0 && ctx.next_sti <= c)
                                {
                                    bad_target = Some(c);
                                }
                            }
                        }
                        out.push(json!(["ticks", c0, n, fired, ctx.next_mti, ctx.next_sti, bad_target, bad_isr]));
                    }
                    "reset" => {
                        let c = u(step, 1)?;
                        ctx.reset(c);
                        out.push(json!(["reset", c, ctx.next_mti, ctx.next_sti]));
                    }
                    "enable" => {
                        ctx.enabled = b(step, 1)?;
                    }
                    "periods" => {
                        ctx.mti_period = u(step, 1)?;
                        ctx.sti_period = u(step, 2)?;
                    }
                    "restore" => {
                        let (ti, ii) = ctx.snapshot_info();
                        let cyc = step.get(1).and_then(|x| x.as_u64()).unwrap_or(0);
                        let mut fresh = TimerContext::new(false, 0, 0);
                        fresh.apply_snapshot_info(&ti, &ii, cyc);
                        *ctx = fresh;
                        out.push(json!(["restore", ctx.enabled, ctx.mti_period, ctx.sti_period, ctx.next_mti, ctx.next_sti]));
                    }
                    "clrisr" => {
                        mem.write_internal_byte(0xFC, 0);
                    }
                    "state" => {
                        out.push(json!(["state", ctx.enabled, ctx.mti_period, ctx.sti_period, ctx.next_mti, ctx.next_sti]));
                    }
                    other => return Err(format!("bad timer step {other}")),
                }
            }
            Ok(Some(Value::Array(out)))
        }
        _ => Err(format!("unknown timer op t.{name}")),
    }
}
