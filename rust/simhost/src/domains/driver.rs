use crate::{u, Host};
use sc62015_core::async_driver::{
    current_cycle, emit_event, sleep_cycles, AsyncDriver, DriverEvent,
};
use serde_json::{json, Value};
use std::cell::RefCell;
use std::rc::Rc;

pub fn dispatch(host: &mut Host, name: &str, op: &Value) -> Result<Option<Value>, String> {
    match name {
        "d.run" => driver_run(op),
        "a.run" => async_vs_sync(host, op),
        "a.timers" => async_timer_task(op),
        _ => Err(format!("unknown driver op {name}")),
    }
}

/// ["d.run", start_clock, [task...], [budget...], late_spawn?]
///   task = [[sleep, event|null], ...]   (event = u32 emitted right after the sleep returns)
///   late_spawn = [after_budget_index, task]  (optional)
/// Returns {"log":[[task,idx,cycle]...], "results":[[event|-1, cycles_executed, clock_after]...]}
fn driver_run(op: &Value) -> Result<Option<Value>, String> {
    let start = u(op, 1)?;
    let tasks = op
        .get(2)
        .and_then(|x| x.as_array())
        .ok_or_else(|| "tasks".to_string())?;
    let budgets = op
        .get(3)
        .and_then(|x| x.as_array())
        .ok_or_else(|| "budgets".to_string())?;
    let late = op.get(4).and_then(|x| x.as_array()).cloned();
    let log: Rc<RefCell<Vec<(u64, u64, u64)>>> = Rc::new(RefCell::new(Vec::new()));
    let mut driver = if start == 0 {
        AsyncDriver::new()
    } else {
        AsyncDriver::with_clock(start)
    };

    /// A future that returns Pending once without asking for a wake-up cycle.
    struct YieldOnce(bool);
    impl std::future::Future for YieldOnce {
        type Output = ();
        fn poll(mut self: std::pin::Pin<&mut Self>, _cx: &mut std::task::Context<'_>) -> std::task::Poll<()> {
            if self.0 {
                std::task::Poll::Ready(())
            } else {
                self.0 = true;
                std::task::Poll::Pending
            }
        }
    }

    fn parse_task(v: &Value) -> Result<Vec<(u64, Option<u32>, u64)>, String> {
        let arr = v.as_array().ok_or_else(|| "task".to_string())?;
        let mut out = Vec::new();
        for step in arr {
            let d = step
                .get(0)
                .and_then(|x| x.as_u64())
                .ok_or_else(|| "sleep".to_string())?;
            let e = step.get(1).and_then(|x| x.as_u64()).map(|x| x as u32);
            let style = step.get(2).and_then(|x| x.as_u64()).unwrap_or(0);
            out.push((d, e, style));
        }
        Ok(out)
    }

    fn spawn_task(
        driver: &mut AsyncDriver,
        id: u64,
        steps: Vec<(u64, Option<u32>, u64)>,
        log: Rc<RefCell<Vec<(u64, u64, u64)>>>,
    ) {
        // style 2: the sleep futures of the plan exist before the task is spawned
        let mut naps: Vec<Option<sc62015_core::async_driver::CycleSleep>> = steps
            .iter()
            .map(|(d, _, st)| if *st == 2 { Some(sleep_cycles(*d)) } else { None })
            .collect();
        driver.spawn(async move {
            for (idx, (d, e, style)) in steps.into_iter().enumerate() {
                if style == 3 {
                    // the crate's own periodic task: one frame of AsyncDisplayTask (sleeps max(d, 1), emits its event)
                    if let Some(ev) = e {
                        sc62015_core::AsyncDisplayTask::new(d, DriverEvent::User(ev)).run_frames(1).await;
                    }
                    log.borrow_mut().push((id, idx as u64, current_cycle()));
                    continue;
                }
                if let Some(nap) = naps[idx].take() {
                    nap.await;
                } else if style == 1 {
                    YieldOnce(false).await;
                } else {
                    sleep_cycles(d).await;
                }
                log.borrow_mut().push((id, idx as u64, current_cycle()));
                if let Some(ev) = e {
                    emit_event(DriverEvent::User(ev));
                }
            }
        });
    }

    for (id, t) in tasks.iter().enumerate() {
        spawn_task(&mut driver, id as u64, parse_task(t)?, log.clone());
    }
    let mut results: Vec<Value> = Vec::new();
    for (bi, bv) in budgets.iter().enumerate() {
        if let Some(l) = late.as_ref() {
            if l.get(0).and_then(|x| x.as_u64()) == Some(bi as u64) {
                let steps = parse_task(l.get(1).unwrap_or(&Value::Null))?;
                spawn_task(&mut driver, tasks.len() as u64, steps, log.clone());
            }
        }
        let budget = bv.as_u64().ok_or_else(|| "budget".to_string())?;
        let r = driver.run_for(budget);
        let ev: i64 = match r.event {
            DriverEvent::MaxCycles => -1,
            DriverEvent::User(x) => x as i64,
        };
        results.push(json!([ev, r.cycles_executed, driver.clock(), log.borrow().len()]));
    }
    let logv: Vec<Value> = log
        .borrow()
        .iter()
        .map(|(t, i, c)| json!([t, i, c]))
        .collect();
    Ok(Some(json!({"log": logv, "results": results})))
}

/// ["a.run", slot, instructions, slice_cycles, [[addr,len]...]]
/// Drives the machine in `slot` through AsyncRuntimeRunner (CPU as a task of the virtual-time
/// scheduler) and returns {"stats":[instr,cycles]|null, "err":..., "obs": machine observation}.
fn async_vs_sync(host: &mut Host, op: &Value) -> Result<Option<Value>, String> {
    use sc62015_core::AsyncRuntimeRunner;
    let slot = u(op, 1)?;
    let n = u(op, 2)? as usize;
    let slice = u(op, 3)?;
    let mut watch: Vec<(u32, u32)> = Vec::new();
    if let Some(arr) = op.get(4).and_then(|x| x.as_array()) {
        for item in arr {
            if let (Some(a), Some(l)) = (
                item.get(0).and_then(|x| x.as_u64()),
                item.get(1).and_then(|x| x.as_u64()),
            ) {
                watch.push((a as u32, l as u32));
            }
        }
    }
    let boxed = host
        .machines
        .remove(&slot)
        .ok_or_else(|| format!("no machine in slot {slot}"))?;
    let rc = Rc::new(RefCell::new(*boxed));
    let (stats, err) = {
        let mut runner = AsyncRuntimeRunner::new(rc.clone());
        if slice > 0 {
            runner = runner.with_slice_cycles(slice);
        }
        match runner.run_instructions(n) {
            Ok(st) => (json!([st.instructions_executed, st.cycles_executed]), Value::Null),
            Err(e) => (Value::Null, json!(format!("{e}"))),
        }
    };
    let rt = Rc::try_unwrap(rc)
        .map_err(|_| "async runner leaked a runtime reference".to_string())?
        .into_inner();
    let obs = super::machine_obs(&rt, &watch);
    host.machines.insert(slot, Box::new(rt));
    Ok(Some(json!({"stats": stats, "err": err, "obs": obs})))
}


/// ["a.timers", {"enabled":bool,"mti":n,"sti":n}, [[cycles, power]...]]
/// A CoreRuntime whose timers and keyboard are driven by AsyncTimerKeyboardTask::run() on the virtual-time
/// scheduler (no CPU task).  Per segment: the power state is imposed (0 running, 1 halted, 2 off), the driver
/// runs for `cycles`, the host reads [clock, ISR, next_mti, next_sti] and clears the two timer status bits.
fn async_timer_task(op: &Value) -> Result<Option<Value>, String> {
    use sc62015_core::llama::state::PowerState;
    use sc62015_core::{AsyncTimerKeyboardTask, CoreRuntime};
    const IMEM_ISR_OFFSET: u32 = 0xFC;
    let cfg = op.get(1).ok_or_else(|| "cfg".to_string())?;
    let segs = op
        .get(2)
        .and_then(|x| x.as_array())
        .ok_or_else(|| "segments".to_string())?;
    let runtime = Rc::new(RefCell::new(CoreRuntime::new()));
    {
        let mut rt = runtime.borrow_mut();
        rt.timer.enabled = cfg.get("enabled").and_then(|x| x.as_bool()).unwrap_or(true);
        rt.timer.mti_period = cfg.get("mti").and_then(|x| x.as_u64()).unwrap_or(0);
        rt.timer.sti_period = cfg.get("sti").and_then(|x| x.as_u64()).unwrap_or(0);
        rt.timer.reset(0);
        rt.memory.write_internal_byte(IMEM_ISR_OFFSET, 0);
    }
    let task = AsyncTimerKeyboardTask::new(runtime.clone());
    let mut driver = AsyncDriver::new();
    // "bounded": the task is started for a fixed number of cycles (run_for) instead of for ever (run)
    let bounded = cfg.get("bounded").and_then(|x| x.as_bool()).unwrap_or(false);
    let total: u64 = segs
        .iter()
        .map(|seg| seg.get(0).and_then(|x| x.as_u64()).unwrap_or(0))
        .sum();
    driver.spawn(async move {
        if bounded {
            task.run_for(total + 4).await;
        } else {
            task.run().await;
        }
    });
    let mut out: Vec<Value> = Vec::new();
    for seg in segs {
        let cycles = seg.get(0).and_then(|x| x.as_u64()).unwrap_or(0);
        let power = seg.get(1).and_then(|x| x.as_u64()).unwrap_or(0);
        {
            let mut rt = runtime.borrow_mut();
            rt.state.set_power_state(match power {
                1 => PowerState::Halted,
                2 => PowerState::Off,
                _ => PowerState::Running,
            });
        }
        let res = driver.run_for(cycles);
        let mut rt = runtime.borrow_mut();
        let isr = rt.memory.read_internal_byte(IMEM_ISR_OFFSET).unwrap_or(0);
        out.push(json!([driver.clock(), isr, rt.timer.next_mti, rt.timer.next_sti, res.cycles_executed]));
        rt.memory.write_internal_byte(IMEM_ISR_OFFSET, isr & !0x03);
    }
    Ok(Some(Value::Array(out)))
}
