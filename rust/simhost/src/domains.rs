use crate::{b, bytes, power_code, reg_by_name, s, u, Host};
use sc62015_core::llama::eval::{LlamaBus, LlamaExecutor};
use sc62015_core::llama::opcodes::RegName;
use sc62015_core::llama::state::{LlamaState, PowerState};
use sc62015_core::memory::MemoryImage;
use sc62015_core::CoreRuntime;
use serde_json::{json, Value};
use std::collections::HashMap;

mod comp;
mod core;
mod driver;

pub fn dispatch(host: &mut Host, name: &str, op: &Value) -> Result<Option<Value>, String> {
    if let Some(rest) = name.strip_prefix("m.") {
        return machine(host, rest, op);
    }
    if name.starts_with("t.")
        || name.starts_with("k.")
        || name.starts_with("l.")
        || name.starts_with("mem.")
        || name.starts_with("r.")
    {
        return comp::dispatch(host, name, op);
    }
    if name.starts_with("c.") {
        return core::dispatch(host, name, op);
    }
    if name.starts_with("d.") || name.starts_with("a.") {
        return driver::dispatch(host, name, op);
    }
    Err(format!("unknown op {name}"))
}

fn mach<'a>(host: &'a mut Host, slot: u64) -> Result<&'a mut CoreRuntime, String> {
    host.machines
        .get_mut(&slot)
        .map(|b| b.as_mut())
        .ok_or_else(|| format!("no machine in slot {slot}"))
}

pub fn machine_read(rt: &CoreRuntime, addr: u32) -> u8 {
    let a = addr & 0x00FF_FFFF;
    if a >= 0x100000 {
        rt.memory
            .read_internal_byte_silent(a - 0x100000)
            .unwrap_or(0)
    } else {
        // What the CPU would load (mirror/overlay aware) without device side effects.
        (rt.memory.load(a, 8).unwrap_or(0) & 0xFF) as u8
    }
}

pub fn machine_obs(rt: &CoreRuntime, watch: &[(u32, u32)]) -> Value {
    let st = &rt.state;
    let sp = st.get_reg(RegName::S) & 0xFFFFF;
    let mut stack = Vec::with_capacity(8);
    for i in 0..8u32 {
        stack.push(machine_read(rt, sp.wrapping_add(i) & 0xFFFFF) as u64);
    }
    let mut w: Vec<Value> = Vec::new();
    for (a, n) in watch {
        let mut row = Vec::with_capacity(*n as usize);
        for i in 0..*n {
            row.push(machine_read(rt, a.wrapping_add(i)) as u64);
        }
        w.push(json!(row));
    }
    let (fifo_len, kil_latch) = match rt.keyboard.as_ref() {
        Some(kb) => (kb.fifo_len() as u64, kb.snapshot_state().kil_latch as u64),
        None => (0, 0),
    };
    json!([
        st.get_reg(RegName::PC) & 0xFFFFF,
        st.get_reg(RegName::BA) & 0xFFFF,
        st.get_reg(RegName::I) & 0xFFFF,
        st.get_reg(RegName::X) & 0xFFFFFF,
        st.get_reg(RegName::Y) & 0xFFFFFF,
        st.get_reg(RegName::U) & 0xFFFFFF,
        st.get_reg(RegName::S) & 0xFFFFFF,
        st.get_reg(RegName::F) & 0xFF,
        power_code(st),
        rt.memory.read_internal_byte_silent(0xFB).unwrap_or(0),
        rt.memory.read_internal_byte_silent(0xFC).unwrap_or(0),
        rt.cycle_count(),
        rt.instruction_count(),
        rt.timer.irq_total,
        rt.timer.delivered_masks.len(),
        rt.timer.in_interrupt,
        rt.timer.irq_pending,
        rt.timer.next_mti,
        rt.timer.next_sti,
        rt.timer.key_irq_latched,
        fifo_len,
        kil_latch,
        stack,
        w,
    ])
}

/// Read-only view of the machine's memory with buffered writes: lets the harness execute
/// the next instruction on a *copy* of the register file to learn the state the program
/// would be in right after that instruction and before any interrupt delivery (a Rust
/// step delivers at its end, so that state is otherwise never visible at a boundary).
struct ShadowBus<'a> {
    mem: &'a MemoryImage,
    writes: HashMap<u32, u8>,
}

impl<'a> ShadowBus<'a> {
    fn rd(&self, addr: u32) -> u8 {
        let a = addr & 0x00FF_FFFF;
        if let Some(v) = self.writes.get(&a) {
            return *v;
        }
        if a >= 0x100000 {
            return self.mem.read_internal_byte_silent((a - 0x100000) & 0xFF).unwrap_or(0);
        }
        (self.mem.load(a, 8).unwrap_or(0) & 0xFF) as u8
    }
}

impl<'a> LlamaBus for ShadowBus<'a> {
    fn load(&mut self, addr: u32, bits: u8) -> u32 {
        let n = (bits as u32).div_ceil(8).max(1);
        let mut out = 0u32;
        for i in 0..n {
            out |= (self.rd(addr.wrapping_add(i)) as u32) << (8 * i);
        }
        out
    }
    fn store(&mut self, addr: u32, bits: u8, value: u32) {
        let n = (bits as u32).div_ceil(8).max(1);
        for i in 0..n {
            self.writes
                .insert(addr.wrapping_add(i) & 0x00FF_FFFF, ((value >> (8 * i)) & 0xFF) as u8);
        }
    }
    fn resolve_emem(&mut self, base: u32) -> u32 {
        base
    }
    fn peek_imem_silent(&mut self, offset: u32) -> u8 {
        self.rd(0x100000 + (offset & 0xFF))
    }
    fn wait_cycles(&mut self, _cycles: u32) {}
}

pub fn copy_state(src: &LlamaState) -> LlamaState {
    let mut dst = LlamaState::new();
    for reg in [
        RegName::BA, RegName::I, RegName::X, RegName::Y, RegName::U, RegName::S,
        RegName::PC, RegName::F, RegName::IMR,
    ] {
        dst.set_reg(reg, src.get_reg(reg));
    }
    for i in 0..14u8 {
        dst.set_reg(RegName::Temp(i), src.get_reg(RegName::Temp(i)));
    }
    dst.set_power_state(src.power_state());
    dst.restore_call_metrics(src.snapshot_call_metrics());
    dst
}

fn shadow_step(rt: &CoreRuntime) -> Value {
    // Computed even when halted/off (as if the CPU resumed): the caller uses it only when
    // the instruction counter shows that an instruction really executed in the step.
    let mut st = copy_state(&rt.state);
    st.set_power_state(PowerState::Running);
    let mut bus = ShadowBus { mem: &rt.memory, writes: HashMap::new() };
    // Device-side changes to ISR that a step applies *before* the instruction executes
    // (they decide what an instruction reading ISR sees): powered-off steps keep only
    // ONKI; a latched key request re-asserts KEYI outside handlers.
    {
        let mut isr = rt.memory.read_internal_byte_silent(0xFC).unwrap_or(0);
        let orig = isr;
        let mut latched = rt.timer.key_irq_latched;
        if rt.state.power_state() == PowerState::Off {
            if isr & 0x04 != 0 {
                latched = false;
            }
            isr &= 0x08;
        }
        if latched && !rt.timer.in_interrupt && rt.keyboard.is_some() {
            isr |= 0x04;
        }
        if isr != orig {
            bus.writes.insert(0x1000FC, isr);
        }
    }
    let pc = st.get_reg(RegName::PC) & 0xFFFFF;
    let opcode = bus.load(pc, 8) as u8;
    let mut exec = LlamaExecutor::new();
    let res = std::panic::catch_unwind(std::panic::AssertUnwindSafe(|| {
        exec.execute(opcode, &mut st, &mut bus)
    }));
    match res {
        Ok(Ok(_)) => json!([
            st.get_reg(RegName::PC) & 0xFFFFF,
            st.get_reg(RegName::F) & 0xFF,
            st.get_reg(RegName::S) & 0xFFFFFF,
            opcode,
            bus.rd(0x1000FB),
            st.get_reg(RegName::BA) & 0xFFFF,
            st.get_reg(RegName::I) & 0xFFFF,
            st.get_reg(RegName::X) & 0xFFFFFF,
            st.get_reg(RegName::Y) & 0xFFFFFF,
            st.get_reg(RegName::U) & 0xFFFFFF,
        ]),
        _ => Value::Null,
    }
}

fn parse_watch(v: Option<&Value>) -> Vec<(u32, u32)> {
    let mut out = Vec::new();
    if let Some(arr) = v.and_then(|x| x.as_array()) {
        for item in arr {
            if let (Some(a), Some(n)) = (
                item.get(0).and_then(|x| x.as_u64()),
                item.get(1).and_then(|x| x.as_u64()),
            ) {
                out.push((a as u32, n as u32));
            }
        }
    }
    out
}

/// {"device": "pce500"|"jp"}: the machine as a front end puts it together — DeviceModel::configure_runtime (LCD kind,
/// keyboard polarity, ROM window from an image file, read-only map, SIO ROM stub)
fn configure_device(rt: &mut CoreRuntime, cfg: &Value) -> Result<(), String> {
    if let Some(dev) = cfg.get("device").and_then(|x| x.as_str()) {
        let model = if dev == "jp" { sc62015_core::DeviceModel::PcE500Jp } else { sc62015_core::DeviceModel::PcE500 };
        let rom = vec![0u8; 0x40000];
        model.configure_runtime(rt, &rom).map_err(|e| format!("{e}"))?;
    }
    Ok(())
}

/// RAM-expansion overlays named in a configuration object: {"expand": [[start, size, name], ...]}
fn add_expansions(rt: &mut CoreRuntime, cfg: &Value) -> Result<(), String> {
    if let Some(list) = cfg.get("expand").and_then(|x| x.as_array()) {
        for e in list {
            rt.add_ram_overlay(u(e, 0)? as u32, u(e, 1)? as usize, s(e, 2)?);
        }
    }
    Ok(())
}

fn machine(host: &mut Host, name: &str, op: &Value) -> Result<Option<Value>, String> {
    let slot = u(op, 1)?;
    match name {
        "new" => {
            let mut rt = Box::new(CoreRuntime::new());
            if let Some(cfg) = op.get(2) {
                if let Some(m) = cfg.get("mirror").and_then(|x| x.as_bool()) {
                    rt.memory.set_internal_ram_mirror(m);
                }
                if cfg.get("por").and_then(|x| x.as_bool()) == Some(true) {
                    // what the Python emulator's constructor does (reset_on_init=True)
                    rt.power_on_reset();
                }
                if cfg.get("pce500_map").and_then(|x| x.as_bool()) == Some(true) {
                    sc62015_core::pce500::configure_pce500_memory_map(&mut rt.memory);
                }
                configure_device(&mut rt, cfg)?;
                add_expansions(&mut rt, cfg)?;
            }
            host.machines.insert(slot, rt);
            Ok(None)
        }
        "drop" => {
            host.machines.remove(&slot);
            Ok(None)
        }
        "timer" => {
            // ["m.timer", slot, enabled, mti, sti]  — the pattern used by the wasm front end
            // and the crate's integration tests: set fields, reset(cycle_count).
            let rt = mach(host, slot)?;
            rt.timer.enabled = b(op, 2)?;
            rt.timer.mti_period = u(op, 3)?;
            rt.timer.sti_period = u(op, 4)?;
            let c = rt.cycle_count();
            rt.timer.reset(c);
            Ok(None)
        }
        "kbcfg" => {
            // ["m.kbcfg", slot, {press, release, repeat_delay, repeat_interval, active_high, repeat, kb_irq}]
            let rt = mach(host, slot)?;
            let cfg = op.get(2).cloned().unwrap_or(json!({}));
            if let Some(kb) = rt.keyboard.as_mut() {
                let mut snap = kb.snapshot_state();
                if let Some(v) = cfg.get("press").and_then(|x| x.as_u64()) {
                    snap.press_threshold = v as u8;
                }
                if let Some(v) = cfg.get("release").and_then(|x| x.as_u64()) {
                    snap.release_threshold = v as u8;
                }
                if let Some(v) = cfg.get("repeat_delay").and_then(|x| x.as_u64()) {
                    snap.repeat_delay = v as u8;
                }
                if let Some(v) = cfg.get("repeat_interval").and_then(|x| x.as_u64()) {
                    snap.repeat_interval = v as u8;
                }
                if let Some(v) = cfg.get("active_high").and_then(|x| x.as_bool()) {
                    snap.columns_active_high = v;
                }
                kb.load_snapshot_state(&snap);
                if let Some(v) = cfg.get("repeat").and_then(|x| x.as_bool()) {
                    kb.set_repeat_enabled(v);
                }
            }
            if let Some(v) = cfg.get("kb_irq").and_then(|x| x.as_bool()) {
                rt.timer.set_keyboard_irq_enabled(v);
            }
            Ok(None)
        }
        "write" => {
            // raw image load: ["m.write", slot, addr, [bytes]]
            let addr = u(op, 2)? as u32;
            let data = bytes(op, 3)?;
            let rt = mach(host, slot)?;
            if addr >= 0x100000 {
                for (i, v) in data.iter().enumerate() {
                    rt.memory
                        .write_internal_byte((addr - 0x100000 + i as u32) & 0xFF, *v);
                }
            } else {
                rt.memory.write_external_slice(addr as usize, &data);
            }
            Ok(None)
        }
        "rom" => {
            // ["m.rom", slot, start, [bytes], name]
            let addr = u(op, 2)? as u32;
            let data = bytes(op, 3)?;
            let nm = s(op, 4)?.to_string();
            mach(host, slot)?.add_rom_overlay(addr, &data, &nm);
            Ok(None)
        }
        "setreg" => {
            let nm = s(op, 2)?.to_string();
            let val = u(op, 3)? as u32;
            let rt = mach(host, slot)?;
            let reg = reg_by_name(&nm).ok_or_else(|| format!("bad reg {nm}"))?;
            rt.state.set_reg(reg, val);
            Ok(None)
        }
        "power" => {
            let code = u(op, 2)?;
            let rt = mach(host, slot)?;
            rt.state.set_power_state(match code {
                1 => PowerState::Halted,
                2 => PowerState::Off,
                _ => PowerState::Running,
            });
            Ok(None)
        }
        "key" => {
            // ["m.key", slot, press(1)/release(0), matrix_code]
            let press = u(op, 2)? != 0;
            let code = u(op, 3)? as u8;
            let rt = mach(host, slot)?;
            if let Some(kb) = rt.keyboard.as_mut() {
                if press {
                    kb.press_matrix_code(code, &mut rt.memory);
                } else {
                    kb.release_matrix_code(code, &mut rt.memory);
                }
            }
            Ok(None)
        }
        "onk" => {
            let press = u(op, 2)? != 0;
            let rt = mach(host, slot)?;
            if press {
                rt.press_on_key();
            } else {
                rt.release_on_key();
            }
            Ok(None)
        }
        "ackisr" => {
            // host-side acknowledge: clear the given ISR bits through the internal-memory API
            let mask = u(op, 2)? as u8;
            let rt = mach(host, slot)?;
            let isr = rt.memory.read_internal_byte_silent(0xFC).unwrap_or(0);
            rt.memory.write_internal_byte(0xFC, isr & !mask);
            Ok(None)
        }
        "scramble" => {
            // hidden state that must not matter: ["m.scramble", slot, [temps14], call_sub_level, [pages], perf]
            let temps = op
                .get(2)
                .and_then(|x| x.as_array())
                .cloned()
                .unwrap_or_default();
            let lvl = op.get(3).and_then(|x| x.as_u64()).unwrap_or(0) as u32;
            let pages = op
                .get(4)
                .and_then(|x| x.as_array())
                .cloned()
                .unwrap_or_default();
            let perf = op.get(5).and_then(|x| x.as_u64());
            let rt = mach(host, slot)?;
            for (i, t) in temps.iter().enumerate().take(14) {
                if let Some(v) = t.as_u64() {
                    rt.state.set_reg(RegName::Temp(i as u8), v as u32);
                }
            }
            rt.state.set_call_sub_level(lvl);
            for p in pages {
                if let Some(v) = p.as_u64() {
                    rt.state.push_call_page(v as u32);
                    rt.state.push_call_frame(v as u32, op.get(6).and_then(|x| x.as_u64()).unwrap_or(16) as u8);
                }
            }
            if let Some(p) = perf {
                sc62015_core::llama::eval::set_perf_instr_counter(p);
            }
            // the timer's mirrors of IMR/ISR (diagnostics kept next to the real registers in internal memory)
            if let Some(m) = op.get(7).and_then(|x| x.as_array()) {
                let rt = mach(host, slot)?;
                rt.timer.irq_imr ^= m.get(0).and_then(|x| x.as_u64()).unwrap_or(0) as u8;
                rt.timer.irq_isr ^= m.get(1).and_then(|x| x.as_u64()).unwrap_or(0) as u8;
            }
            Ok(None)
        }
        "save" => {
            let path = s(op, 2)?.to_string();
            let rt = mach(host, slot)?;
            rt.save_snapshot(std::path::Path::new(&path))
                .map_err(|e| format!("save_snapshot: {e}"))?;
            Ok(None)
        }
        "load" => {
            let path = s(op, 2)?.to_string();
            let rt = mach(host, slot)?;
            match rt.load_snapshot(std::path::Path::new(&path)) {
                Ok(()) => Ok(Some(json!({"loaded": true}))),
                Err(e) => Ok(Some(json!({"loaded": false, "err": format!("{e}")}))),
            }
        }
        "restart" => {
            // crash + restart: save to path, build a *fresh* runtime with the same
            // construction-time configuration, load the bundle, replace the slot.
            let path = s(op, 2)?.to_string();
            let cfg = op.get(3).cloned().unwrap_or(json!({}));
            {
                let rt = mach(host, slot)?;
                rt.save_snapshot(std::path::Path::new(&path))
                    .map_err(|e| format!("save_snapshot: {e}"))?;
            }
            let mut fresh = Box::new(CoreRuntime::new());
            if let Some(m) = cfg.get("mirror").and_then(|x| x.as_bool()) {
                fresh.memory.set_internal_ram_mirror(m);
            }
            if let Some(roms) = cfg.get("roms").and_then(|x| x.as_array()) {
                for r in roms {
                    let addr = u(r, 0)? as u32;
                    let data = bytes(r, 1)?;
                    let nm = s(r, 2)?.to_string();
                    fresh.add_rom_overlay(addr, &data, &nm);
                }
            }
            configure_device(&mut fresh, &cfg)?;
            add_expansions(&mut fresh, &cfg)?;
            // host-side keyboard options that are configuration, not saved state, are supplied again
            if let Some(v) = cfg.get("kb_repeat").and_then(|x| x.as_bool()) {
                if let Some(kb) = fresh.keyboard.as_mut() {
                    kb.set_repeat_enabled(v);
                }
            }
            let res = fresh.load_snapshot(std::path::Path::new(&path));
            let _ = std::fs::remove_file(&path);
            match res {
                Ok(()) => {
                    host.machines.insert(slot, fresh);
                    Ok(Some(json!({"loaded": true})))
                }
                Err(e) => Ok(Some(json!({"loaded": false, "err": format!("{e}")}))),
            }
        }
        "rewind" => {
            // save, keep running the *same* runtime for d more instructions, then load the bundle in place:
            // a restore into a used machine must give the state a restore into a fresh one gives
            let path = s(op, 2)?.to_string();
            let d = u(op, 3)? as usize;
            let rt = mach(host, slot)?;
            rt.save_snapshot(std::path::Path::new(&path))
                .map_err(|e| format!("save_snapshot: {e}"))?;
            for _ in 0..d {
                if rt.step(1).is_err() {
                    break;
                }
            }
            let res = rt.load_snapshot(std::path::Path::new(&path));
            let _ = std::fs::remove_file(&path);
            match res {
                Ok(()) => Ok(Some(json!({"loaded": true}))),
                Err(e) => Ok(Some(json!({"loaded": false, "err": format!("{e}")}))),
            }
        }
        "obs" => {
            let watch = parse_watch(op.get(2));
            let rt = mach(host, slot)?;
            Ok(Some(machine_obs(rt, &watch)))
        }
        "read" => {
            let addr = u(op, 2)? as u32;
            let n = u(op, 3)? as u32;
            let rt = mach(host, slot)?;
            let out: Vec<u64> = (0..n)
                .map(|i| machine_read(rt, addr.wrapping_add(i)) as u64)
                .collect();
            Ok(Some(json!(out)))
        }
        "lcd" => {
            // exported LCD state + visible pixels digest
            let rt = mach(host, slot)?;
            Ok(Some(lcd_export(rt)))
        }
        "kbstate" => {
            let rt = mach(host, slot)?;
            let v = match rt.keyboard.as_ref() {
                Some(kb) => json!({
                    "fifo": kb.fifo_snapshot(),
                    "snap": serde_json::to_value(kb.snapshot_state()).unwrap_or(Value::Null),
                }),
                None => Value::Null,
            };
            Ok(Some(v))
        }
        "timerstate" => {
            let rt = mach(host, slot)?;
            let t = &rt.timer;
            Ok(Some(json!({
                "enabled": t.enabled, "mti": t.mti_period, "sti": t.sti_period,
                "next_mti": t.next_mti, "next_sti": t.next_sti, "kb_irq": t.kb_irq_enabled,
                "pending": t.irq_pending, "in_interrupt": t.in_interrupt, "source": t.irq_source,
                "latched": t.key_irq_latched, "total": t.irq_total, "masks": t.delivered_masks,
            })))
        }
        "run" => {
            // ["m.run", slot, boundaries, [[at, op...], ...], [[addr,len],...], stop_lo, stop_hi]
            // Executes step(1) `boundaries` times; before boundary index `at` the listed ops are
            // dispatched (they may be any op, including ones that replace the slot).  Returns
            // {"obs":[obs0 (initial), obs1, ...], "evout":[[at, out]...], "err": null|{"at":k,"msg":..}}
            let n = u(op, 2)? as usize;
            let events = op
                .get(3)
                .and_then(|x| x.as_array())
                .cloned()
                .unwrap_or_default();
            let watch = parse_watch(op.get(4));
            let stop_lo = op.get(5).and_then(|x| x.as_u64()).unwrap_or(0) as u32;
            let stop_hi = op.get(6).and_then(|x| x.as_u64()).unwrap_or(0xFFFFFF) as u32;
            let mut obs: Vec<Value> = Vec::with_capacity(n + 1);
            let mut evout: Vec<Value> = Vec::new();
            let mut preobs: Vec<Value> = Vec::new();
            let mut err = Value::Null;
            let mut ei = 0usize;
            {
                let mut o = machine_obs(mach(host, slot)?, &watch);
                if let Some(arr) = o.as_array_mut() {
                    arr.push(Value::Null);
                }
                obs.push(o);
            }
            for k in 0..n {
                let had_events = ei < events.len() && (u(&events[ei], 0)? as usize) <= k;
                while ei < events.len() && (u(&events[ei], 0)? as usize) <= k {
                    let ev = &events[ei];
                    let sub = Value::Array(ev.as_array().map(|a| a[1..].to_vec()).unwrap_or_default());
                    let nm = s(&sub, 0)?.to_string();
                    if let Some(o) = dispatch(host, &nm, &sub)? {
                        evout.push(json!([k, o]));
                    }
                    ei += 1;
                }
                if had_events {
                    // observation after the ops and before the step: attributes every
                    // later change to the step itself
                    let mut o = machine_obs(mach(host, slot)?, &watch);
                    if let Some(arr) = o.as_array_mut() {
                        arr.push(Value::Null);
                    }
                    preobs.push(json!([k, o]));
                }
                let rt = mach(host, slot)?;
                let pc = rt.state.get_reg(RegName::PC) & 0xFFFFF;
                if rt.state.power_state() == PowerState::Running && (pc < stop_lo || pc > stop_hi) {
                    err = json!({"at": k, "msg": "left_code"});
                    break;
                }
                let shadow = shadow_step(rt);
                let step_res = rt.step(1);
                let mut o = machine_obs(rt, &watch);
                if let Some(arr) = o.as_array_mut() {
                    arr.push(shadow);
                }
                obs.push(o);
                if let Err(e) = step_res {
                    err = json!({"at": k, "msg": format!("{e}")});
                    break;
                }
            }
            Ok(Some(json!({"obs": obs, "evout": evout, "preobs": preobs, "err": err})))
        }
        "stepn" => {
            // one call to step(n): for split-run equality (C07/C18)
            let n = u(op, 2)? as usize;
            let rt = mach(host, slot)?;
            match rt.step(n) {
                Ok(()) => Ok(Some(json!({"ok": true}))),
                Err(e) => Ok(Some(json!({"ok": false, "err": format!("{e}")}))),
            }
        }
        _ => Err(format!("unknown machine op m.{name}")),
    }
}

pub fn lcd_export(rt: &CoreRuntime) -> Value {
    match rt.lcd.as_ref() {
        Some(lcd) => {
            let (meta, payload) = lcd.export_snapshot();
            let buf = lcd.display_buffer();
            let mut rows: Vec<String> = Vec::with_capacity(buf.len());
            for row in buf.iter() {
                let mut srow = String::with_capacity(row.len());
                for px in row.iter() {
                    srow.push(if *px != 0 { '1' } else { '0' });
                }
                rows.push(srow);
            }
            json!({"meta": meta, "vram": payload, "pixels": rows})
        }
        None => Value::Null,
    }
}
