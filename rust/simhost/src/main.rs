//! simhost — deterministic-simulation host for the Rust side of mblsha/binja-esr.
//!
//! Links `sc62015-core` (compiled from the repository working tree) and executes
//! *materialised* scenarios sent by the Python simulator.  Protocol: one JSON
//! document per line on stdin (`{"ops":[[name, args...], ...]}`), one JSON document
//! per line on stdout (`{"ok":true,"out":[...]}` / `{"ok":false,"err":"..."}`).
//! There is no PRNG, clock or thread in this process: it is a pure function of the
//! request stream.  Domains: m.* (CoreRuntime machine), t.* (TimerContext),
//! k.* (KeyboardMatrix), l.* (LcdController), mem.* (MemoryImage), r.* (LlamaState
//! register file), c.* (LlamaExecutor over a flat bus), d.* (AsyncDriver tasks),
//! a.* (AsyncRuntimeRunner vs CoreRuntime::step).

use sc62015_core::llama::eval::{LlamaBus, LlamaExecutor};
use sc62015_core::llama::opcodes::RegName;
use sc62015_core::llama::state::{LlamaState, PowerState};
use sc62015_core::memory::MemoryImage;
use sc62015_core::timer::TimerContext;
use sc62015_core::{CoreRuntime, KeyboardMatrix, LcdController};
use serde_json::{json, Value};
use std::collections::{BTreeMap, HashMap};
use std::io::{BufRead, Write};

mod domains;

pub fn reg_by_name(name: &str) -> Option<RegName> {
    Some(match name {
        "A" => RegName::A,
        "B" => RegName::B,
        "BA" => RegName::BA,
        "IL" => RegName::IL,
        "IH" => RegName::IH,
        "I" => RegName::I,
        "X" => RegName::X,
        "Y" => RegName::Y,
        "U" => RegName::U,
        "S" => RegName::S,
        "PC" => RegName::PC,
        "F" => RegName::F,
        "FC" => RegName::FC,
        "FZ" => RegName::FZ,
        "IMR" => RegName::IMR,
        _ => {
            if let Some(idx) = name.strip_prefix("TEMP") {
                return idx.parse::<u8>().ok().map(RegName::Temp);
            }
            return None;
        }
    })
}

pub fn power_code(state: &LlamaState) -> u64 {
    match state.power_state() {
        PowerState::Running => 0,
        PowerState::Halted => 1,
        PowerState::Off => 2,
    }
}

pub fn u(v: &Value, idx: usize) -> Result<u64, String> {
    v.get(idx)
        .and_then(|x| x.as_u64())
        .ok_or_else(|| format!("arg {idx} of {v} is not an unsigned integer"))
}

pub fn s<'a>(v: &'a Value, idx: usize) -> Result<&'a str, String> {
    v.get(idx)
        .and_then(|x| x.as_str())
        .ok_or_else(|| format!("arg {idx} of {v} is not a string"))
}

pub fn b(v: &Value, idx: usize) -> Result<bool, String> {
    v.get(idx)
        .and_then(|x| x.as_bool())
        .ok_or_else(|| format!("arg {idx} of {v} is not a bool"))
}

pub fn bytes(v: &Value, idx: usize) -> Result<Vec<u8>, String> {
    let arr = v
        .get(idx)
        .and_then(|x| x.as_array())
        .ok_or_else(|| format!("arg {idx} of {v} is not an array"))?;
    arr.iter()
        .map(|x| x.as_u64().map(|n| n as u8).ok_or_else(|| "byte".to_string()))
        .collect()
}

/// Flat little-endian bus used for core-level (C06/C07) runs: external 0..0xFFFFF,
/// internal 0x100000..0x1000FF, everything else reads 0 / ignores writes.
pub struct FlatBus {
    pub ext: Vec<u8>,
    pub imem: [u8; 256],
    pub writes: BTreeMap<u32, u8>,
    pub log_writes: bool,
}

impl FlatBus {
    pub fn new() -> Self {
        FlatBus {
            ext: vec![0u8; 0x100000],
            imem: [0u8; 256],
            writes: BTreeMap::new(),
            log_writes: true,
        }
    }
    pub fn rd(&self, addr: u32) -> u8 {
        let a = addr & 0x00FF_FFFF;
        if (0x100000..0x100100).contains(&a) {
            self.imem[(a - 0x100000) as usize]
        } else {
            // outside the internal window the external space wraps modulo 1 MiB (as the machine buses do)
            self.ext[(a & 0xFFFFF) as usize]
        }
    }
    pub fn wr(&mut self, addr: u32, val: u8) {
        let a = addr & 0x00FF_FFFF;
        let key = if (0x100000..0x100100).contains(&a) {
            self.imem[(a - 0x100000) as usize] = val;
            a
        } else {
            self.ext[(a & 0xFFFFF) as usize] = val;
            a & 0xFFFFF
        };
        if self.log_writes {
            self.writes.insert(key, val);
        }
    }
}

impl LlamaBus for FlatBus {
    fn load(&mut self, addr: u32, bits: u8) -> u32 {
        let n = (bits as u32).div_ceil(8).max(1);
        let mut out = 0u32;
        for i in 0..n {
            out |= (self.rd(addr.wrapping_add(i)) as u32) << (8 * i);
        }
        out
    }
    fn store(&mut self, addr: u32, bits: u8, value: u32) {
        let n = (bits as u32).div_ceil(8).max(1);
        for i in 0..n {
            self.wr(addr.wrapping_add(i), ((value >> (8 * i)) & 0xFF) as u8);
        }
    }
    fn resolve_emem(&mut self, base: u32) -> u32 {
        base
    }
    fn peek_imem_silent(&mut self, offset: u32) -> u8 {
        self.imem[(offset & 0xFF) as usize]
    }
    fn wait_cycles(&mut self, _cycles: u32) {}
}

pub struct CoreSlot {
    pub state: LlamaState,
    pub bus: FlatBus,
    pub exec: LlamaExecutor,
}

pub struct Host {
    pub machines: HashMap<u64, Box<CoreRuntime>>,
    pub timers: HashMap<u64, (TimerContext, MemoryImage)>,
    pub keyboards: HashMap<u64, (KeyboardMatrix, MemoryImage)>,
    pub lcds: HashMap<u64, LcdController>,
    pub mems: HashMap<u64, MemoryImage>,
    /// memories that live inside a runtime configured through the device-model loaders (C11 loader configurations)
    pub memrts: HashMap<u64, Box<CoreRuntime>>,
    pub regs: HashMap<u64, LlamaState>,
    pub cores: HashMap<u64, CoreSlot>,
}

impl Host {
    fn new() -> Self {
        Host {
            machines: HashMap::new(),
            timers: HashMap::new(),
            keyboards: HashMap::new(),
            lcds: HashMap::new(),
            mems: HashMap::new(),
            memrts: HashMap::new(),
            regs: HashMap::new(),
            cores: HashMap::new(),
        }
    }

    fn reset(&mut self) {
        *self = Host::new();
    }

    fn run_request(&mut self, req: &Value) -> Result<Value, String> {
        let ops = req
            .get("ops")
            .and_then(|v| v.as_array())
            .ok_or_else(|| "request has no ops array".to_string())?;
        let mut out: Vec<Value> = Vec::new();
        for op in ops {
            let name = s(op, 0)?;
            let res = if name == "reset" {
                self.reset();
                None
            } else if name == "ping" {
                Some(json!("pong"))
            } else {
                domains::dispatch(self, name, op)?
            };
            if let Some(v) = res {
                out.push(v);
            }
        }
        Ok(Value::Array(out))
    }
}

fn main() {
    // Panics inside the core are reported as an error reply, never as silence.
    std::panic::set_hook(Box::new(|_| {}));
    let stdin = std::io::stdin();
    let stdout = std::io::stdout();
    let mut host = Host::new();
    let mut line = String::new();
    loop {
        line.clear();
        match stdin.lock().read_line(&mut line) {
            Ok(0) => break,
            Ok(_) => {}
            Err(_) => break,
        }
        let trimmed = line.trim();
        if trimmed.is_empty() {
            continue;
        }
        let reply = match serde_json::from_str::<Value>(trimmed) {
            Err(e) => json!({"ok": false, "err": format!("bad json: {e}")}),
            Ok(req) => {
                let result =
                    std::panic::catch_unwind(std::panic::AssertUnwindSafe(|| host.run_request(&req)));
                match result {
                    Ok(Ok(out)) => json!({"ok": true, "out": out}),
                    Ok(Err(e)) => {
                        host.reset();
                        json!({"ok": false, "err": e})
                    }
                    Err(p) => {
                        host.reset();
                        let msg = if let Some(s) = p.downcast_ref::<&str>() {
                            s.to_string()
                        } else if let Some(s) = p.downcast_ref::<String>() {
                            s.clone()
                        } else {
                            "panic".to_string()
                        };
                        json!({"ok": false, "err": format!("panic: {msg}"), "panic": true})
                    }
                }
            }
        };
        let mut lock = stdout.lock();
        let _ = serde_json::to_writer(&mut lock, &reply);
        let _ = lock.write_all(b"\n");
        let _ = lock.flush();
    }
}
